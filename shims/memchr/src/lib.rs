//! Contract shim for `memchr` (verification builds only): the real crate's runtime CPU
//! detection reaches inline assembly under Kani.  Contract = "index of the first byte
//! equal to one of the needles, None if there is none", written as the obvious loop.
pub fn memchr(n1: u8, haystack: &[u8]) -> Option<usize> {
    let mut i = 0;
    while i < haystack.len() {
        if haystack[i] == n1 {
            return Some(i);
        }
        i += 1;
    }
    None
}
pub fn memchr2(n1: u8, n2: u8, haystack: &[u8]) -> Option<usize> {
    let mut i = 0;
    while i < haystack.len() {
        let b = haystack[i];
        if b == n1 || b == n2 {
            return Some(i);
        }
        i += 1;
    }
    None
}
pub fn memchr3(n1: u8, n2: u8, n3: u8, haystack: &[u8]) -> Option<usize> {
    let mut i = 0;
    while i < haystack.len() {
        let b = haystack[i];
        if b == n1 || b == n2 || b == n3 {
            return Some(i);
        }
        i += 1;
    }
    None
}
