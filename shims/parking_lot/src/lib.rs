//! Contract shim for `parking_lot` (verification builds only).
//!
//! The real crate makes the Kani compiler ICE (intrinsics.rs:243).  This shim is the
//! *callee contract* the harnesses rely on: a lock is a cell plus a ghost state
//! `state` (0 = free, n>0 = n readers, -1 = one writer).  Because every harness is
//! single-threaded, an acquisition that would block is a self-deadlock and is reported
//! as a failed obligation (`assert!`).  Ghost counters let harnesses state
//! lock-discipline obligations ("exactly one write section", "no access without guard").
//! Mutual exclusion between threads is ASSUMED (it is the contract of the real crate).
use core::cell::{Cell, UnsafeCell};
use core::ops::{Deref, DerefMut};

pub mod ghost {
    //! Global ghost counters (all locks of the harness; harnesses use one lock at a time).
    pub static mut READ_ACQ: u32 = 0;
    pub static mut WRITE_ACQ: u32 = 0;
    pub static mut READ_REL: u32 = 0;
    pub static mut WRITE_REL: u32 = 0;
    /// number of guards currently alive
    pub static mut HELD: i32 = 0;
    pub fn reset() {
        unsafe {
            READ_ACQ = 0;
            WRITE_ACQ = 0;
            READ_REL = 0;
            WRITE_REL = 0;
            HELD = 0;
        }
    }
    pub fn read_acq() -> u32 { unsafe { READ_ACQ } }
    pub fn write_acq() -> u32 { unsafe { WRITE_ACQ } }
    pub fn read_rel() -> u32 { unsafe { READ_REL } }
    pub fn write_rel() -> u32 { unsafe { WRITE_REL } }
    pub fn held() -> i32 { unsafe { HELD } }
}

pub struct RwLock<T: ?Sized> {
    state: Cell<i32>,
    data: UnsafeCell<T>,
}
unsafe impl<T: ?Sized + Send> Send for RwLock<T> {}
unsafe impl<T: ?Sized + Send + Sync> Sync for RwLock<T> {}

pub struct RwLockReadGuard<'a, T: ?Sized> {
    lock: &'a RwLock<T>,
}
pub struct RwLockWriteGuard<'a, T: ?Sized> {
    lock: &'a RwLock<T>,
}

impl<T> RwLock<T> {
    pub const fn new(val: T) -> Self {
        RwLock { state: Cell::new(0), data: UnsafeCell::new(val) }
    }
    pub fn into_inner(self) -> T {
        self.data.into_inner()
    }
}

impl<T: ?Sized> RwLock<T> {
    pub fn read(&self) -> RwLockReadGuard<'_, T> {
        // acquiring a read lock while this (only) thread holds the write lock deadlocks
        assert!(self.state.get() >= 0, "VERIF-OBLIGATION lock: read() while write guard held (self-deadlock)");
        self.state.set(self.state.get() + 1);
        unsafe {
            ghost::READ_ACQ += 1;
            ghost::HELD += 1;
        }
        RwLockReadGuard { lock: self }
    }
    pub fn write(&self) -> RwLockWriteGuard<'_, T> {
        assert!(self.state.get() == 0, "VERIF-OBLIGATION lock: write() while a guard is held (self-deadlock)");
        self.state.set(-1);
        unsafe {
            ghost::WRITE_ACQ += 1;
            ghost::HELD += 1;
        }
        RwLockWriteGuard { lock: self }
    }
    pub fn get_mut(&mut self) -> &mut T {
        self.data.get_mut()
    }
    /// ghost: current lock state (0 free, n readers, -1 writer)
    pub fn ghost_state(&self) -> i32 {
        self.state.get()
    }
    /// ghost: peek at the protected data without taking the lock (harness use only,
    /// legal only when no write guard is alive)
    pub fn ghost_peek(&self) -> &T {
        assert!(self.state.get() >= 0);
        unsafe { &*self.data.get() }
    }
}

impl<T: ?Sized> Deref for RwLockReadGuard<'_, T> {
    type Target = T;
    fn deref(&self) -> &T {
        unsafe { &*self.lock.data.get() }
    }
}
impl<T: ?Sized> Drop for RwLockReadGuard<'_, T> {
    fn drop(&mut self) {
        self.lock.state.set(self.lock.state.get() - 1);
        unsafe {
            ghost::READ_REL += 1;
            ghost::HELD -= 1;
        }
    }
}
impl<T: ?Sized> Deref for RwLockWriteGuard<'_, T> {
    type Target = T;
    fn deref(&self) -> &T {
        unsafe { &*self.lock.data.get() }
    }
}
impl<T: ?Sized> DerefMut for RwLockWriteGuard<'_, T> {
    fn deref_mut(&mut self) -> &mut T {
        unsafe { &mut *self.lock.data.get() }
    }
}
impl<T: ?Sized> Drop for RwLockWriteGuard<'_, T> {
    fn drop(&mut self) {
        self.lock.state.set(0);
        unsafe {
            ghost::WRITE_REL += 1;
            ghost::HELD -= 1;
        }
    }
}

impl<T: Default> Default for RwLock<T> {
    fn default() -> Self {
        RwLock::new(T::default())
    }
}
impl<T: ?Sized> core::fmt::Debug for RwLock<T> {
    fn fmt(&self, f: &mut core::fmt::Formatter<'_>) -> core::fmt::Result {
        f.write_str("RwLock(shim)")
    }
}

/// Only used as a `PhantomData` type parameter by the crate (`auto_flush.rs`).
pub struct Mutex<T: ?Sized> {
    _state: Cell<bool>,
    _data: UnsafeCell<T>,
}
unsafe impl<T: ?Sized + Send> Send for Mutex<T> {}
unsafe impl<T: ?Sized + Send> Sync for Mutex<T> {}
