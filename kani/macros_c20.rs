//! C20 — registration macros are faithful shorthands (bounded: the arms below, concrete arguments).
//! Child module of src/macros.rs (the macros are in textual scope).
#![allow(dead_code, unused)]
use crate::__vcoll::HashMap;
use crate::__vsup::*;
use crate::{Error, HistogramOpts, Opts, Registry};

fn opts_equal(a: &Opts, b: &Opts) -> bool {
    a.namespace == b.namespace
        && a.subsystem == b.subsystem
        && a.name == b.name
        && a.help == b.help
        && a.const_labels.len() == b.const_labels.len()
        && a.variable_labels.len() == b.variable_labels.len()
}

//@ id: c20_labels_and_opts_arms
//@ prop: C20
//@ tier: quick
//@ strength: bounded(enumerated: labels!{} , labels!{k=>v, k=>v,} ; opts!(n,h) , opts!(n,h,) , opts!(n,h,labels) , opts!(n,h,labels,labels,) on concrete arguments)
//@ fn: macros::labels, macros::opts
//@ obligation: labels! builds exactly the listed pairs (with or without trailing comma); opts!(name, help[, labels...]) equals Opts::new(name, help).const_labels(union of the label maps): same name, help, empty namespace/subsystem/variable labels, and exactly the given constant labels
#[kani::proof]
#[kani::unwind(8)]
fn c20_labels_and_opts_arms() {
    let e: HashMap<&str, &str> = labels! {};
    assert!(e.len() == 0, "C20.labels!: empty form is not empty");
    let l = labels! {"a" => "x", "b" => "y",};
    assert!(l.len() == 2 && l.get("a") == Some(&"x") && l.get("b") == Some(&"y"), "C20.labels!: does not hold exactly the listed pairs");
    let o1 = opts!("n", "h");
    let o2 = opts!("n", "h",);
    let ex = Opts::new("n", "h");
    assert!(opts_equal(&o1, &ex) && opts_equal(&o2, &ex), "C20.opts!(name, help) differs from Opts::new(name, help)");
    let o3 = opts!("n", "h", labels! {"a" => "x"});
    assert!(o3.name == "n" && o3.help == "h" && o3.const_labels.len() == 1 && o3.const_labels.get("a").map(|s| s.as_str()) == Some("x"), "C20.opts!(name, help, labels) does not carry exactly the given constant label");
    let o4 = opts!("n", "h", labels! {"a" => "x"}, labels! {"b" => "y"},);
    assert!(o4.const_labels.len() == 2 && o4.const_labels.get("b").map(|s| s.as_str()) == Some("y") && o4.const_labels.get("a").map(|s| s.as_str()) == Some("x"), "C20.opts!(name, help, labels, labels,) does not carry the union of the label maps");
    assert!(o4.namespace.is_empty() && o4.subsystem.is_empty() && o4.variable_labels.is_empty(), "C20.opts!: unexpected namespace/subsystem/variable labels");
    core::mem::forget((e, l, o1, o2, ex, o3, o4));
}

//@ id: c20_opts_later_map_overrides
//@ prop: C20
//@ tier: quick
//@ strength: bounded(enumerated: opts!(n, h, {a: x}, {a: z}) -- one key defined by two label maps)
//@ fn: macros::opts
//@ obligation: when several label maps define the same key the LATER map wins, exactly as the explicit left-to-right construction does
#[kani::proof]
#[kani::unwind(8)]
fn c20_opts_later_map_overrides() {
    let o5 = opts!("n", "h", labels! {"a" => "x"}, labels! {"a" => "z"});
    assert!(o5.const_labels.len() == 1 && o5.const_labels.get("a").map(|s| s.as_str()) == Some("z"), "C20.opts!(.., labels, labels): a later label map must override an earlier one (as the explicit left-to-right calls do)");
    core::mem::forget(o5);
}

//@ id: c20_histogram_opts_arms
//@ prop: C20
//@ tier: quick
//@ strength: bounded(enumerated: histogram_opts!(n,h) , (n,h,buckets) , (n,h,buckets,labels) with concrete arguments)
//@ fn: macros::histogram_opts
//@ obligation: histogram_opts!(name, help) equals HistogramOpts::new(name, help) (default buckets); with a bucket list it carries exactly those buckets; with labels exactly those constant labels
#[kani::proof]
#[kani::unwind(14)]
fn c20_histogram_opts_arms() {
    let h1 = histogram_opts!("n", "h");
    let ex = HistogramOpts::new("n", "h");
    assert!(opts_equal(&h1.common_opts, &ex.common_opts) && h1.buckets.len() == ex.buckets.len(), "C20.histogram_opts!(name, help) differs from HistogramOpts::new(name, help)");
    let mut i = 0;
    while i < ex.buckets.len() {
        assert!(h1.buckets[i] == ex.buckets[i], "C20.histogram_opts!: default buckets differ");
        i += 1;
    }
    let h2 = histogram_opts!("n", "h", vec![1.0, 2.5]);
    assert!(h2.buckets.len() == 2 && h2.buckets[0] == 1.0 && h2.buckets[1] == 2.5 && h2.common_opts.name == "n" && h2.common_opts.help == "h", "C20.histogram_opts!(name, help, buckets) does not carry exactly the given buckets");
    let h3 = histogram_opts!("n", "h", vec![1.0], labels! {"a".to_string() => "x".to_string(),},);
    assert!(h3.buckets.len() == 1 && h3.common_opts.const_labels.len() == 1 && h3.common_opts.const_labels.get("a").map(|s| s.as_str()) == Some("x"), "C20.histogram_opts!(name, help, buckets, labels) does not carry the constant labels");
    core::mem::forget((h1, ex, h2, h3));
}

//@ id: c20_register_histogram_arms_forward
//@ prop: C20
//@ tier: quick
//@ strength: bounded(enumerated: register_histogram!(n,h) and (n,h,buckets) with a trailing comma, concrete arguments; the TERMINAL arm -- Histogram::with_opts + register -- is replaced by a contract stand-in that returns the options reaching it and is not decided)
//@ fn: macros::register_histogram
//@ obligation: the (name, help) and (name, help, buckets) arms of register_histogram! forward exactly histogram_opts!(name, help) resp. histogram_opts!(name, help, buckets) to the terminal arm: name, help and the given buckets arrive, nothing is dropped or defaulted
#[kani::proof]
#[kani::unwind(14)]
fn c20_register_histogram_arms_forward() {
    let ex = HistogramOpts::new("n", "h");
    let a: HistogramOpts = register_histogram!("n", "h").unwrap();
    assert!(a.common_opts.name == "n" && a.common_opts.help == "h" && a.buckets.len() == ex.buckets.len(), "C20.register_histogram!(name, help) does not forward histogram_opts!(name, help)");
    let b: HistogramOpts = register_histogram!("n", "h", vec![1.0, 2.5],).unwrap();
    assert!(b.common_opts.name == "n" && b.common_opts.help == "h", "C20.register_histogram!(name, help, buckets) does not forward name and help");
    assert!(b.buckets.len() == 2 && b.buckets[0] == 1.0 && b.buckets[1] == 2.5, "C20.register_histogram!(name, help, buckets) does not forward exactly the given buckets");
    core::mem::forget((ex, a, b));
}

//@ id: c20_register_counter_arms_forward
//@ prop: C20
//@ tier: quick
//@ strength: bounded(enumerated: register_counter!(n,h) / (opts) and register_int_counter!(n,h) / (opts) with a trailing comma, concrete arguments; the TERMINAL @of_type arm -- $TYPE::with_opts + register -- is replaced by a contract stand-in that returns the type identifier and the options reaching it and is not decided)
//@ fn: macros::register_counter, macros::register_int_counter
//@ obligation: register_counter! reaches the terminal arm with type Counter and register_int_counter! with type IntCounter; the (name, help) arms forward exactly opts!(name, help) (no constant labels) and the (opts) arms forward the given options unchanged
#[kani::proof]
#[kani::unwind(14)]
fn c20_register_counter_arms_forward() {
    let (t1, o1): (&'static str, Opts) = register_counter!("n", "h",).unwrap();
    assert!(t1 == "Counter", "C20.register_counter!: does not build a Counter");
    assert!(o1.name == "n" && o1.help == "h" && o1.const_labels.len() == 0 && o1.variable_labels.len() == 0, "C20.register_counter!(name, help) does not forward opts!(name, help)");
    let (t2, o2): (&'static str, Opts) = register_int_counter!("m", "g",).unwrap();
    assert!(t2 == "IntCounter", "C20.register_int_counter!: does not build an IntCounter");
    assert!(o2.name == "m" && o2.help == "g" && o2.const_labels.len() == 0 && o2.variable_labels.len() == 0, "C20.register_int_counter!(name, help) does not forward opts!(name, help)");
    let (t3, o3): (&'static str, Opts) = register_int_counter!(Opts::new("p", "q").namespace("ns"),).unwrap();
    assert!(t3 == "IntCounter" && o3.name == "p" && o3.help == "q" && o3.namespace == "ns", "C20.register_int_counter!(opts) does not forward the given options");
    let (t4, o4): (&'static str, Opts) = register_counter!(Opts::new("p", "q").subsystem("ss")).unwrap();
    assert!(t4 == "Counter" && o4.name == "p" && o4.help == "q" && o4.subsystem == "ss", "C20.register_counter!(opts) does not forward the given options");
    core::mem::forget((o1, o2, o3, o4));
}

// (tier off, measured: expanding a registration arm -- Counter::with_opts + Registry::register on the
// real GenericCounter collector + unregister -- runs out of memory / time under CBMC (586 s crash,
// 1337 s); the registration arms of C20 are therefore NOT decided)
//@ id: c20_register_counter_with_registry_arm
//@ prop: C20
//@ tier: off
//@ strength: bounded(enumerated: register_counter_with_registry!(name, help, registry) on concrete arguments, fresh custom registry)
//@ fn: macros::register_counter_with_registry
//@ obligation: the arm evaluates to Ok(handle) whose descriptor has the given name and help, no constant labels and no variable labels (= Counter::with_opts(opts!(name, help))), the metric IS registered in the NAMED registry (unregistering the returned handle from it succeeds)
#[kani::proof]
#[kani::unwind(8)]
#[kani::stub(alloc::fmt::format, stub_format)]
#[kani::stub(<[crate::proto::LabelPair]>::sort, stub_sort)]
fn c20_register_counter_with_registry_arm() {
    use crate::core::Collector;
    let reg = Registry::new();
    let r = register_counter_with_registry!("m", "h", reg);
    match &r {
        Ok(c) => {
            let d = c.desc();
            assert!(d.len() == 1 && d[0].fq_name == "m" && d[0].help == "h" && d[0].const_label_pairs.is_empty() && d[0].variable_labels.is_empty(), "C20.register_counter_with_registry!: metric differs from Counter::with_opts(opts!(name, help))");
            assert!(c.get() == 0.0, "C20: new counter does not start from zero");
            // registered in the NAMED registry: unregistering the returned handle there succeeds
            let un = reg.unregister(Box::new(c.clone()));
            assert!(un.is_ok(), "C20.register_counter_with_registry!: the returned handle is not registered in the named registry");
            core::mem::forget(un);
        }
        Err(_) => assert!(false, "C20.register_counter_with_registry!: refused a valid registration"),
    }
    core::mem::forget((r, reg));
}
