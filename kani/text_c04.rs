//! C04 (text exposition) and the encoder part of C17.  Child module of src/encoder/text.rs.
//! String-producing code with symbolic content is outside CBMC's reach (measured), so:
//!   * `find_first_occurence` (string-consuming) is contracted symbolically;
//!   * `escape_string` is discharged by exhaustive ENUMERATION of concrete inputs over an
//!     adversarial alphabet (bounded, enumerated);
//!   * the layout functions are checked on concrete families against literal expected text, with
//!     std's number formatting replaced by opaque tokens (vsup::f64_token / i64_token).
#![allow(dead_code, unused)]
use super::*;
use crate::__vsup::*;
use crate::proto::{Bucket, Counter, Gauge, Histogram, LabelPair, Metric, MetricFamily, MetricType, Quantile, Summary};

/// fixed-capacity recording writer (no allocation)
pub(crate) struct RecW {
    pub buf: [u8; 256],
    pub len: usize,
}
impl RecW {
    pub fn new() -> RecW {
        RecW { buf: [0; 256], len: 0 }
    }
    pub fn is(&self, expect: &[u8]) -> bool {
        if self.len != expect.len() {
            return false;
        }
        let mut i = 0;
        while i < expect.len() {
            if self.buf[i] != expect[i] {
                return false;
            }
            i += 1;
        }
        true
    }
}
impl WriteUtf8 for RecW {
    fn write_all(&mut self, text: &str) -> io::Result<()> {
        let b = text.as_bytes();
        let mut i = 0;
        while i < b.len() {
            assert!(self.len < 256, "VERIF: recording writer overflow");
            self.buf[self.len] = b[i];
            self.len += 1;
            i += 1;
        }
        Ok(())
    }
}

//@ id: c04_find_first_occurence_contract
//@ prop: C04
//@ tier: quick
//@ strength: bounded(strings of <= 4 symbolic ASCII bytes), complete in byte values and in the flag
//@ fn: encoder::text::find_first_occurence
//@ obligation: returns the index of the first backslash or line feed (or double quote iff include_double_quote), None iff there is none
#[kani::proof]
#[kani::unwind(6)]
fn c04_find_first_occurence_contract() {
    let b: [u8; 4] = kani::any();
    let len: usize = kani::any();
    kani::assume(len <= 4);
    let mut i = 0;
    while i < 4 {
        kani::assume(b[i] < 0x80);
        i += 1;
    }
    let s = unsafe { core::str::from_utf8_unchecked(&b[..len]) };
    let q: bool = kani::any();
    let r = find_first_occurence(s, q);
    let mut exp: Option<usize> = None;
    let mut i = 0;
    while i < len {
        if exp.is_none() && (b[i] == b'\\' || b[i] == b'\n' || (q && b[i] == b'"')) {
            exp = Some(i);
        }
        i += 1;
    }
    assert!(r == exp, "C04.find_first_occurence: not the index of the first character that needs escaping");
}

const ALPHA: [char; 7] = ['a', '\\', '\n', '"', '\r', 'é', '你'];

/// spec: per char  \ -> \\ ,  LF -> \n ,  " -> \" iff q ; everything else (CR, multi-byte) unchanged
fn spec_push_escaped(out: &mut String, c: char, q: bool) {
    match c {
        '\\' => {
            out.push('\\');
            out.push('\\');
        }
        '\n' => {
            out.push('\\');
            out.push('n');
        }
        '"' if q => {
            out.push('\\');
            out.push('"');
        }
        _ => out.push(c),
    }
}

fn escape_case(a: Option<usize>, b: Option<usize>, c: Option<usize>, q: bool) {
    let mut s = String::with_capacity(16);
    let mut e = String::with_capacity(32);
    let mut special = false;
    for x in [a, b, c] {
        if let Some(i) = x {
            s.push(ALPHA[i]);
            spec_push_escaped(&mut e, ALPHA[i], q);
            if ALPHA[i] == '\\' || ALPHA[i] == '\n' || (q && ALPHA[i] == '"') {
                special = true;
            }
        }
    }
    let r = escape_string(&s, q);
    assert!(&*r == e.as_str(), "C04.escape_string: result differs from the character-wise escaping rule");
    // (whether the result is Borrowed or Owned is an optimisation, not part of the property: not demanded)
    core::mem::forget(r);
    core::mem::forget(e);
    core::mem::forget(s);
}

//@ id: c04_escape_enum_len0_1
//@ prop: C04
//@ tier: quick
//@ strength: bounded(enumerated: the empty string and all 7 one-character strings over {a, backslash, LF, quote, CR, e-acute, CJK}, both quoting modes)
//@ fn: encoder::text::escape_string
//@ obligation: escape_string(v, q) equals the character-wise rule (backslash -> two backslashes, LF -> backslash n, quote -> backslash quote iff q, everything else incl. CR and multi-byte unchanged)
#[kani::proof]
#[kani::unwind(12)]
fn c04_escape_enum_len0_1() {
    escape_case(None, None, None, false);
    escape_case(None, None, None, true);
    let mut i = 0;
    while i < 7 {
        escape_case(Some(i), None, None, false);
        escape_case(Some(i), None, None, true);
        i += 1;
    }
}

//@ id: c04_escape_enum_len2_first0
//@ prop: C04
//@ tier: quick
//@ strength: bounded(enumerated: the 7 two-character strings starting with a over the 7-symbol alphabet, both quoting modes)
//@ fn: encoder::text::escape_string
//@ obligation: escape_string equals the character-wise rule on every two-character string (special after an ordinary prefix, two specials, multi-byte before/after a special)
#[kani::proof]
#[kani::unwind(12)]
fn c04_escape_enum_len2_first0() {
    let mut j = 0;
    while j < 7 {
        escape_case(Some(0), Some(j), None, false);
        escape_case(Some(0), Some(j), None, true);
        j += 1;
    }
}

//@ id: c04_escape_enum_len2_first1
//@ prop: C04
//@ tier: quick
//@ strength: bounded(enumerated: the 7 two-character strings starting with backslash over the 7-symbol alphabet, both quoting modes)
//@ fn: encoder::text::escape_string
//@ obligation: escape_string equals the character-wise rule on every two-character string (special after an ordinary prefix, two specials, multi-byte before/after a special)
#[kani::proof]
#[kani::unwind(12)]
fn c04_escape_enum_len2_first1() {
    let mut j = 0;
    while j < 7 {
        escape_case(Some(1), Some(j), None, false);
        escape_case(Some(1), Some(j), None, true);
        j += 1;
    }
}

//@ id: c04_escape_enum_len2_first2
//@ prop: C04
//@ tier: quick
//@ strength: bounded(enumerated: the 7 two-character strings starting with LF over the 7-symbol alphabet, both quoting modes)
//@ fn: encoder::text::escape_string
//@ obligation: escape_string equals the character-wise rule on every two-character string (special after an ordinary prefix, two specials, multi-byte before/after a special)
#[kani::proof]
#[kani::unwind(12)]
fn c04_escape_enum_len2_first2() {
    let mut j = 0;
    while j < 7 {
        escape_case(Some(2), Some(j), None, false);
        escape_case(Some(2), Some(j), None, true);
        j += 1;
    }
}

//@ id: c04_escape_enum_len2_first3
//@ prop: C04
//@ tier: quick
//@ strength: bounded(enumerated: the 7 two-character strings starting with quote over the 7-symbol alphabet, both quoting modes)
//@ fn: encoder::text::escape_string
//@ obligation: escape_string equals the character-wise rule on every two-character string (special after an ordinary prefix, two specials, multi-byte before/after a special)
#[kani::proof]
#[kani::unwind(12)]
fn c04_escape_enum_len2_first3() {
    let mut j = 0;
    while j < 7 {
        escape_case(Some(3), Some(j), None, false);
        escape_case(Some(3), Some(j), None, true);
        j += 1;
    }
}

//@ id: c04_escape_enum_len2_first4
//@ prop: C04
//@ tier: quick
//@ strength: bounded(enumerated: the 7 two-character strings starting with CR over the 7-symbol alphabet, both quoting modes)
//@ fn: encoder::text::escape_string
//@ obligation: escape_string equals the character-wise rule on every two-character string (special after an ordinary prefix, two specials, multi-byte before/after a special)
#[kani::proof]
#[kani::unwind(12)]
fn c04_escape_enum_len2_first4() {
    let mut j = 0;
    while j < 7 {
        escape_case(Some(4), Some(j), None, false);
        escape_case(Some(4), Some(j), None, true);
        j += 1;
    }
}

//@ id: c04_escape_enum_len2_first5
//@ prop: C04
//@ tier: quick
//@ strength: bounded(enumerated: the 7 two-character strings starting with e-acute over the 7-symbol alphabet, both quoting modes)
//@ fn: encoder::text::escape_string
//@ obligation: escape_string equals the character-wise rule on every two-character string (special after an ordinary prefix, two specials, multi-byte before/after a special)
#[kani::proof]
#[kani::unwind(12)]
fn c04_escape_enum_len2_first5() {
    let mut j = 0;
    while j < 7 {
        escape_case(Some(5), Some(j), None, false);
        escape_case(Some(5), Some(j), None, true);
        j += 1;
    }
}

//@ id: c04_escape_enum_len2_first6
//@ prop: C04
//@ tier: quick
//@ strength: bounded(enumerated: the 7 two-character strings starting with CJK over the 7-symbol alphabet, both quoting modes)
//@ fn: encoder::text::escape_string
//@ obligation: escape_string equals the character-wise rule on every two-character string (special after an ordinary prefix, two specials, multi-byte before/after a special)
#[kani::proof]
#[kani::unwind(12)]
fn c04_escape_enum_len2_first6() {
    let mut j = 0;
    while j < 7 {
        escape_case(Some(6), Some(j), None, false);
        escape_case(Some(6), Some(j), None, true);
        j += 1;
    }
}

//@ id: c04_escape_enum_len3_sample
//@ prop: C04
//@ tier: thorough
//@ strength: bounded(enumerated: the 49 three-character strings  x . backslash . y  and  x . LF . y  restricted to x, y in {a, quote, e-acute, CJK, backslash, LF, CR} with a fixed middle, both quoting modes)
//@ fn: encoder::text::escape_string
//@ obligation: escape_string equals the character-wise rule on three-character strings with a special character in the middle
#[kani::proof]
#[kani::unwind(14)]
fn c04_escape_enum_len3_sample() {
    let mut i = 0;
    while i < 7 {
        let mut j = 0;
        while j < 7 {
            escape_case(Some(i), Some(1), Some(j), true);
            j += 1;
        }
        i += 1;
    }
}

fn lp(n: &str, v: &str) -> LabelPair {
    let mut l = LabelPair::default();
    l.set_name(n.to_owned());
    l.set_value(v.to_owned());
    l
}

//@ id: c04_label_pairs_to_text_layout
//@ prop: C04
//@ tier: quick
//@ strength: bounded(enumerated concrete scenarios: no pairs / one pair / two pairs, with and without the additional label, values containing quote, backslash and line feed)
//@ fn: encoder::text::label_pairs_to_text
//@ obligation: nothing is written for no pairs and no extra label; otherwise { name="escaped value" joined by commas, extra label last }; values are escaped with the quoting rule so that no value can close its quotes or end the line
#[kani::proof]
#[kani::unwind(48)]
fn c04_label_pairs_to_text_layout() {
    let mut w = RecW::new();
    assert!(label_pairs_to_text(&[], None, &mut w).is_ok() && w.len == 0, "C04.label_pairs_to_text: wrote something for an empty label set");
    let mut w = RecW::new();
    let one = [lp("a", "x\"y")];
    assert!(label_pairs_to_text(&one, None, &mut w).is_ok(), "C04.label_pairs_to_text: error");
    assert!(w.is(b"{a=\"x\\\"y\"}"), "C04.label_pairs_to_text: one pair must be written as {a=\"x\\\"y\"}");
    let mut w = RecW::new();
    let two = [lp("a", "1"), lp("b", "\\\n")];
    assert!(label_pairs_to_text(&two, Some(("le", "+Inf")), &mut w).is_ok(), "C04.label_pairs_to_text: error");
    assert!(w.is(b"{a=\"1\",b=\"\\\\\\n\",le=\"+Inf\"}"), "C04.label_pairs_to_text: pairs must be joined by commas, escaped, with the additional label last");
    let mut w = RecW::new();
    assert!(label_pairs_to_text(&[], Some(("quantile", "0.5")), &mut w).is_ok(), "C04.label_pairs_to_text: error");
    assert!(w.is(b"{quantile=\"0.5\"}"), "C04.label_pairs_to_text: only the additional label");
    core::mem::forget((one, two));
}

fn metric_with(labels: Vec<LabelPair>, ts: i64) -> Metric {
    let mut m = Metric::from_label(labels);
    m.set_timestamp_ms(ts);
    m
}

//@ id: c04_write_sample_layout
//@ prop: C04
//@ tier: quick
//@ strength: bounded(enumerated concrete scenarios: with/without postfix, labels, additional label, timestamp; values 1.5, NaN, +Inf as opaque number tokens)
//@ fn: encoder::text::write_sample
//@ obligation: one line: name, optional postfix, label set, one space, the value token, and (iff the timestamp is non-zero) one space and the timestamp token, terminated by exactly one line feed
#[kani::proof]
#[kani::unwind(64)]
fn c04_write_sample_layout() {
    let m = metric_with(Vec::new(), 0);
    let mut w = RecW::new();
    assert!(write_sample(&mut w, "n", None, &m, None, 1.5).is_ok(), "C04.write_sample: error");
    assert!(w.is(b"n <f:3ff8000000000000>\n"), "C04.write_sample: plain sample must be `name value\\n`");
    let mut lv = Vec::with_capacity(1);
    lv.push(lp("a", "x"));
    let m2 = metric_with(lv, 17);
    let mut w = RecW::new();
    assert!(write_sample(&mut w, "n", Some("_bucket"), &m2, Some(("le", "1")), f64::INFINITY).is_ok(), "C04.write_sample: error");
    assert!(w.is(b"n_bucket{a=\"x\",le=\"1\"} <f:7ff0000000000000> <i:17>\n"), "C04.write_sample: name+postfix, labels, value, non-zero timestamp, newline");
    core::mem::forget((m, m2));
}

fn counter_family(name: &str, help: &str, kind: MetricType, v: f64) -> MetricFamily {
    let mut m = Metric::default();
    let mut c = Counter::default();
    c.set_value(v);
    m.set_counter(c);
    let mut g = Gauge::default();
    g.set_value(v);
    m.set_gauge(g);
    let mut mf = MetricFamily::default();
    mf.set_name(name.to_owned());
    mf.set_help(help.to_owned());
    mf.set_field_type(kind);
    let mut ms = Vec::with_capacity(1);
    ms.push(m);
    mf.set_metric(ms);
    mf
}

//@ id: c04_encode_counter_family
//@ prop: C04, C17
//@ tier: quick
//@ strength: bounded(one concrete counter family with one sample; help contains a line feed and a quote)
//@ fn: encoder::text::TextEncoder::encode_impl
//@ obligation: `# HELP name escaped-help` (help escaped WITHOUT the quote rule, so a line feed cannot add a line), `# TYPE name counter`, then one sample line; Ok
#[kani::proof]
#[kani::unwind(70)]
#[kani::stub(alloc::fmt::format, stub_format)]
fn c04_encode_counter_family() {
    let mf = counter_family("n", "a\n\"", MetricType::COUNTER, 2.0);
    let fams = [mf];
    let mut w = RecW::new();
    let r = TextEncoder::new().encode_impl(&fams, &mut w);
    assert!(r.is_ok(), "C04.encode: error on a well-formed counter family");
    assert!(w.is(b"# HELP n a\\n\"\n# TYPE n counter\nn <f:4000000000000000>\n"), "C04.encode: counter family must render as HELP line (escaped), TYPE line, sample line");
    core::mem::forget((fams, r));
}

fn histogram_family() -> MetricFamily {
    let mut h = Histogram::default();
    h.set_sample_count(3);
    h.set_sample_sum(4.5);
    let mut b = Bucket::default();
    b.set_upper_bound(1.0);
    b.set_cumulative_count(2);
    let mut bs = Vec::with_capacity(1);
    bs.push(b);
    h.set_bucket(bs);
    let mut m = Metric::default();
    m.set_histogram(h);
    let mut mf = MetricFamily::default();
    mf.set_name("h".to_owned());
    mf.set_field_type(MetricType::HISTOGRAM);
    let mut ms = Vec::with_capacity(1);
    ms.push(m);
    mf.set_metric(ms);
    mf
}

//@ id: c04_encode_histogram_family
//@ prop: C04
//@ tier: quick
//@ strength: bounded(one concrete histogram family: one finite bucket, count 3, sum 4.5, no help)
//@ fn: encoder::text::TextEncoder::encode_impl
//@ obligation: no HELP line for an empty help; `# TYPE h histogram`; one _bucket line per bucket with le=bound and the cumulative count, an added +Inf bucket equal to the sample count, then _sum and _count
#[kani::proof]
#[kani::unwind(200)]
#[kani::stub(alloc::fmt::format, stub_format)]
fn c04_encode_histogram_family() {
    let fams = [histogram_family()];
    let mut w = RecW::new();
    let r = TextEncoder::new().encode_impl(&fams, &mut w);
    assert!(r.is_ok(), "C04.encode: error on a well-formed histogram family");
    assert!(
        w.is(b"# TYPE h histogram\nh_bucket{le=\"<f:3ff0000000000000>\"} <f:4000000000000000>\nh_bucket{le=\"+Inf\"} <f:4008000000000000>\nh_sum <f:4012000000000000>\nh_count <f:4008000000000000>\n"),
        "C04.encode: histogram must render as cumulative buckets, a +Inf bucket equal to the count, _sum, _count"
    );
    core::mem::forget((fams, r));
}

//@ id: c17_encode_every_metric_type_no_panic
//@ prop: C17, C04
//@ tier: quick
//@ strength: bounded(one concrete single-sample family, family type ranging over all five MetricType values)
//@ fn: encoder::text::TextEncoder::encode_impl, encoder::check_metric_family
//@ obligation: for every MetricType (including UNTYPED) the text encoder returns Ok or Err and does not panic; a family without metrics or without a name is refused with Err before anything is written
#[kani::proof]
#[kani::unwind(70)]
#[kani::stub(alloc::fmt::format, stub_format)]
fn c17_encode_every_metric_type_no_panic() {
    let k: u8 = kani::any();
    let kind = match k % 5 {
        0 => MetricType::COUNTER,
        1 => MetricType::GAUGE,
        2 => MetricType::SUMMARY,
        3 => MetricType::UNTYPED,
        _ => MetricType::HISTOGRAM,
    };
    let fams = [counter_family("n", "", kind, 1.0)];
    let mut w = RecW::new();
    let r = TextEncoder::new().encode_impl(&fams, &mut w);
    // reaching this point at all is the obligation (CBMC reports any reachable panic)
    kani::cover!(r.is_ok());
    let mut e = MetricFamily::default();
    e.set_name("n".to_owned());
    let empties = [e];
    let mut w2 = RecW::new();
    let r2 = TextEncoder::new().encode_impl(&empties, &mut w2);
    assert!(r2.is_err() && w2.len == 0, "C17.encode: a family without samples must be refused before anything is written");
    core::mem::forget((fams, r, empties, r2));
}

fn eq_bytes(a: &[u8], b: &[u8]) -> bool {
    if a.len() != b.len() {
        return false;
    }
    let mut i = 0;
    while i < a.len() {
        if a[i] != b[i] {
            return false;
        }
        i += 1;
    }
    true
}

//@ id: c04_entry_points_agree_and_append
//@ prop: C04
//@ tier: quick
//@ strength: bounded(one concrete counter family; output buffers pre-filled with one line)
//@ fn: encoder::text::TextEncoder::encode, encoder::text::TextEncoder::encode_utf8, encoder::text::TextEncoder::encode_to_string, encoder::text::StringBuf::write_all
//@ obligation: encode (io::Write), encode_utf8 (String) and encode_to_string produce the same bytes for the same families, and the first two only APPEND to what their output already holds
#[kani::proof]
#[kani::unwind(70)]
#[kani::stub(alloc::fmt::format, stub_format)]
fn c04_entry_points_agree_and_append() {
    let fams = [counter_family("n", "h", MetricType::COUNTER, 2.0)];
    let enc = TextEncoder::new();
    let body: &[u8] = b"# HELP n h\n# TYPE n counter\nn <f:4000000000000000>\n";
    let mut s = String::with_capacity(96);
    s.push_str("x\n");
    assert!(enc.encode_utf8(&fams, &mut s).is_ok(), "C04.encode_utf8: error");
    assert!(s.len() == 2 + body.len() && &s.as_bytes()[..2] == b"x\n" && eq_bytes(&s.as_bytes()[2..], body), "C04.encode_utf8: must append exactly the encoding to the existing buffer");
    let mut v: Vec<u8> = Vec::with_capacity(96);
    v.push(b'y');
    assert!(enc.encode(&fams, &mut v).is_ok(), "C04.encode: error");
    assert!(v.len() == 1 + body.len() && v[0] == b'y' && eq_bytes(&v[1..], body), "C04.encode: must append exactly the same bytes as encode_utf8");
    let t = enc.encode_to_string(&fams);
    match &t {
        Ok(t) => assert!(eq_bytes(t.as_bytes(), body), "C04.encode_to_string: must produce the same bytes"),
        Err(_) => assert!(false, "C04.encode_to_string: error"),
    }
    core::mem::forget((fams, s, v, t));
}

//@ id: c04_encode_summary_family
//@ prop: C04
//@ tier: quick
//@ strength: bounded(one concrete summary family: one quantile, count 3, sum 4.5, one label)
//@ fn: encoder::text::TextEncoder::encode_impl
//@ obligation: a summary renders one line per quantile carrying the sample's labels plus quantile="...", then _sum and _count with the sample's labels
#[kani::proof]
#[kani::unwind(150)]
#[kani::stub(alloc::fmt::format, stub_format)]
fn c04_encode_summary_family() {
    let mut q = Quantile::default();
    q.set_quantile(0.5);
    q.set_value(3.0);
    let mut qs = Vec::with_capacity(1);
    qs.push(q);
    let mut s = Summary::default();
    s.set_sample_count(3);
    s.set_sample_sum(4.5);
    s.set_quantile(qs);
    let mut lv = Vec::with_capacity(1);
    lv.push(lp("a", "x"));
    let mut m = Metric::from_label(lv);
    m.set_summary(s);
    let mut mf = MetricFamily::default();
    mf.set_name("s".to_owned());
    mf.set_field_type(MetricType::SUMMARY);
    let mut ms = Vec::with_capacity(1);
    ms.push(m);
    mf.set_metric(ms);
    let fams = [mf];
    let mut w = RecW::new();
    let r = TextEncoder::new().encode_impl(&fams, &mut w);
    assert!(r.is_ok(), "C04.encode: error on a well-formed summary family");
    assert!(
        w.is(b"# TYPE s summary\ns{a=\"x\",quantile=\"<f:3fe0000000000000>\"} <f:4008000000000000>\ns_sum{a=\"x\"} <f:4012000000000000>\ns_count{a=\"x\"} <f:4008000000000000>\n"),
        "C04.encode: summary must render as one line per quantile (own labels + quantile), then _sum and _count"
    );
    core::mem::forget((fams, r));
}

//@ id: c04_encode_histogram_explicit_inf_bucket
//@ prop: C04
//@ tier: quick
//@ strength: bounded(one concrete histogram family supplied by a custom collector: buckets [1, +Inf], count 3)
//@ fn: encoder::text::TextEncoder::encode_impl
//@ obligation: when the last explicit bucket already has the bound +Inf, no second +Inf bucket is synthesised: exactly one bucket line per explicit bucket, then _sum and _count
#[kani::proof]
#[kani::unwind(200)]
#[kani::stub(alloc::fmt::format, stub_format)]
fn c04_encode_histogram_explicit_inf_bucket() {
    let mut h = Histogram::default();
    h.set_sample_count(3);
    h.set_sample_sum(4.5);
    let mut b1 = Bucket::default();
    b1.set_upper_bound(1.0);
    b1.set_cumulative_count(2);
    let mut b2 = Bucket::default();
    b2.set_upper_bound(f64::INFINITY);
    b2.set_cumulative_count(3);
    let mut bs = Vec::with_capacity(2);
    bs.push(b1);
    bs.push(b2);
    h.set_bucket(bs);
    let mut m = Metric::default();
    m.set_histogram(h);
    let mut mf = MetricFamily::default();
    mf.set_name("h".to_owned());
    mf.set_field_type(MetricType::HISTOGRAM);
    let mut ms = Vec::with_capacity(1);
    ms.push(m);
    mf.set_metric(ms);
    let fams = [mf];
    let mut w = RecW::new();
    let r = TextEncoder::new().encode_impl(&fams, &mut w);
    assert!(r.is_ok(), "C04.encode: error on a histogram with an explicit +Inf bucket");
    assert!(
        w.is(b"# TYPE h histogram\nh_bucket{le=\"<f:3ff0000000000000>\"} <f:4000000000000000>\nh_bucket{le=\"<f:7ff0000000000000>\"} <f:4008000000000000>\nh_sum <f:4012000000000000>\nh_count <f:4008000000000000>\n"),
        "C04.encode: a histogram whose last explicit bucket is +Inf must not get a second +Inf bucket"
    );
    core::mem::forget((fams, r));
}
