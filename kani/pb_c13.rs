//! C13 — protobuf exposition.  Child module of src/encoder/pb.rs (default features only).
//! The real `protobuf` runtime and the generated proto/proto_model.rs are EXECUTED (not stubbed) on
//! small concrete families and the produced bytes are compared with an independently written
//! expected wire encoding (field numbers and wire types from proto/proto_model.proto).
#![allow(dead_code, unused)]
use super::*;
use crate::proto::{Counter, LabelPair, Metric, MetricFamily, MetricType};

fn minimal(name: &str) -> MetricFamily {
    let mut mf = MetricFamily::default();
    mf.set_name(name.to_owned());
    mf.set_field_type(MetricType::COUNTER);
    let mut ms = Vec::with_capacity(1);
    ms.push(Metric::default());
    mf.set_metric(ms);
    mf
}

//@ id: c13_encode_minimal_family_bytes
//@ prop: C13
//@ tier: quick
//@ features: proto
//@ strength: bounded(enumerated: one concrete family -- name "n", type COUNTER, one empty metric)
//@ fn: encoder::pb::ProtobufEncoder::encode
//@ obligation: the family is written as ONE length-delimited io.prometheus.client.MetricFamily message and nothing else: varint length 7, then field 1 (name, LEN) "n", field 3 (type, VARINT) 0, field 4 (metric, LEN) empty
#[kani::proof]
#[kani::unwind(20)]
fn c13_encode_minimal_family_bytes() {
    let fams = [minimal("n")];
    let mut out: Vec<u8> = Vec::with_capacity(32);
    let r = ProtobufEncoder::new().encode(&fams, &mut out);
    assert!(r.is_ok(), "C13.encode: error on a well-formed family");
    let exp: [u8; 8] = [7, 0x0a, 1, b'n', 0x18, 0, 0x22, 0];
    assert!(out.len() == 8, "C13.encode: stream length (one length-delimited message, nothing else)");
    let mut i = 0;
    while i < 8 {
        assert!(out[i] == exp[i], "C13.encode: wire bytes differ from the MetricFamily encoding of proto_model.proto");
        i += 1;
    }
    core::mem::forget((fams, r, out));
}

//@ id: c13_encode_refuses_nameless_and_empty
//@ prop: C13, C17
//@ tier: quick
//@ features: proto
//@ strength: bounded(enumerated: a family without samples, a family without a name, each after one good family)
//@ fn: encoder::pb::ProtobufEncoder::encode, encoder::check_metric_family
//@ obligation: a family without a name or without samples is refused with Err, nothing is written for it or after it, and what was written before it stays; no panic
#[kani::proof]
#[kani::unwind(20)]
#[kani::stub(alloc::fmt::format, crate::__vsup::stub_format)]
fn c13_encode_refuses_nameless_and_empty() {
    let which: bool = kani::any();
    let mut bad = MetricFamily::default();
    if which {
        bad.set_name("x".to_owned()); // no metrics
    } else {
        let mut ms = Vec::with_capacity(1);
        ms.push(Metric::default());
        bad.set_metric(ms); // no name
    }
    let fams = [bad, minimal("n")];
    let mut out: Vec<u8> = Vec::with_capacity(32);
    let r = ProtobufEncoder::new().encode(&fams, &mut out);
    assert!(r.is_err(), "C13.encode: a family without name / without samples must be refused");
    assert!(out.len() == 0, "C13.encode: bytes were written for or after the refused family");
    core::mem::forget((fams, r, out));
}
