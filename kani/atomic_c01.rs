//! C01 / C11 — per-call atomic-step contracts of src/atomic64.rs under arbitrary interference,
//! plus the sequential functional contracts.  Child module of src/atomic64.rs.
#![allow(dead_code, unused)]
use super::*;
use crate::__venv as env;
use crate::__vsup::*;

fn f64_inc_by_step(k: u32) {
    env::reset(k);
    let init: f64 = kani::any();
    let a = AtomicF64::new(init);
    let cell = env::addr_u(&a.inner);
    let d: f64 = kani::any();
    // guarantee (asserted inside the events, see venv.rs): only load / compare-exchange attempts on
    // this cell; each exchange is against the value just loaded with new = loaded + d; exactly
    // one successful exchange and it is the last event.
    env::expect_f64_add(cell, d);
    a.inc_by(d);
    env::finish_f64_add();
    kani::cover!(env::cas_fails() == k);
}

//@ id: c01_f64_inc_by_step_k1
//@ prop: C01, C11
//@ tier: quick
//@ strength: complete in values and interference (every f64 delta, every value read at every step); CAS retries bounded (K=1) with unwinding assertion; the per-attempt assertions sit inside the write event and do not depend on the retry count
//@ fn: atomic64::AtomicF64::inc_by
//@ obligation: under arbitrary interference inc_by(d) performs load/compare-exchange attempts only; every attempt exchanges the value just loaded for loaded+d; it returns after exactly one successful exchange and performs no other write
#[kani::proof]
#[kani::unwind(7)]
#[kani::stub(std::sync::atomic::Atomic::<u64>::load, env::env_load)]
#[kani::stub(std::sync::atomic::Atomic::<u64>::compare_exchange_weak, env::env_cas_weak)]
#[kani::stub(std::sync::atomic::Atomic::<u64>::compare_exchange, env::env_cas_strong)]
#[kani::stub(std::sync::atomic::Atomic::<u64>::store, env::env_store)]
#[kani::stub(std::sync::atomic::Atomic::<u64>::fetch_add, env::env_fetch_add)]
#[kani::stub(std::sync::atomic::Atomic::<u64>::swap, env::env_swap)]
fn c01_f64_inc_by_step_k1() {
    f64_inc_by_step(1);
}

//@ id: c01_f64_inc_by_step_k2
//@ prop: C01, C11
//@ tier: thorough
//@ strength: complete in values and interference (every f64 delta, every value read at every step); CAS retries bounded (K=2) with unwinding assertion
//@ fn: atomic64::AtomicF64::inc_by
//@ obligation: under arbitrary interference inc_by(d) performs load/compare-exchange attempts only; every attempt exchanges the value just loaded for loaded+d; it returns after exactly one successful exchange and performs no other write
#[kani::proof]
#[kani::unwind(9)]
#[kani::stub(std::sync::atomic::Atomic::<u64>::load, env::env_load)]
#[kani::stub(std::sync::atomic::Atomic::<u64>::compare_exchange_weak, env::env_cas_weak)]
#[kani::stub(std::sync::atomic::Atomic::<u64>::compare_exchange, env::env_cas_strong)]
#[kani::stub(std::sync::atomic::Atomic::<u64>::store, env::env_store)]
#[kani::stub(std::sync::atomic::Atomic::<u64>::fetch_add, env::env_fetch_add)]
#[kani::stub(std::sync::atomic::Atomic::<u64>::swap, env::env_swap)]
fn c01_f64_inc_by_step_k2() {
    f64_inc_by_step(2);
}

//@ id: c01_f64_inc_by_step_k4
//@ prop: C01, C11
//@ tier: thorough
//@ strength: complete in values and interference; CAS retries bounded (K=4) with unwinding assertion
//@ fn: atomic64::AtomicF64::inc_by
//@ obligation: under arbitrary interference inc_by(d) performs load/compare-exchange attempts only; every attempt exchanges the value just loaded for loaded+d; it returns after exactly one successful exchange and performs no other write
#[kani::proof]
#[kani::unwind(13)]
#[kani::stub(std::sync::atomic::Atomic::<u64>::load, env::env_load)]
#[kani::stub(std::sync::atomic::Atomic::<u64>::compare_exchange_weak, env::env_cas_weak)]
#[kani::stub(std::sync::atomic::Atomic::<u64>::compare_exchange, env::env_cas_strong)]
#[kani::stub(std::sync::atomic::Atomic::<u64>::store, env::env_store)]
#[kani::stub(std::sync::atomic::Atomic::<u64>::fetch_add, env::env_fetch_add)]
#[kani::stub(std::sync::atomic::Atomic::<u64>::swap, env::env_swap)]
fn c01_f64_inc_by_step_k4() {
    f64_inc_by_step(4);
}

//@ id: c01_f64_dec_by_is_add_of_negation
//@ prop: C11
//@ tier: quick
//@ strength: complete (callee AtomicF64::inc_by replaced by its proved contract)
//@ fn: atomic64::AtomicF64::dec_by
//@ obligation: dec_by(d) is exactly one atomic add of -d on the same cell
#[kani::proof]
#[kani::unwind(4)]
#[kani::stub(<crate::atomic64::AtomicF64 as crate::atomic64::Atomic>::inc_by, env::contract_f64_inc_by)]
fn c01_f64_dec_by_is_add_of_negation() {
    env::reset(0);
    let a = AtomicF64::new(kani::any());
    let d: f64 = kani::any();
    a.dec_by(d);
    assert!(env::is_single_f64_add(0, addr_of(&a), -d), "C11.f64.dec_by: not exactly one atomic add of -d");
}

//@ id: c01_f64_get_set_steps
//@ prop: C01, C11
//@ tier: quick
//@ strength: complete
//@ fn: atomic64::AtomicF64::get, atomic64::AtomicF64::set, atomic64::AtomicF64::new
//@ obligation: get is exactly one load and returns the loaded bits as f64; set is exactly one store of the value's 64 bits (never torn: one 64-bit event); new performs no event
#[kani::proof]
#[kani::unwind(4)]
#[kani::stub(std::sync::atomic::Atomic::<u64>::load, env::env_load)]
#[kani::stub(std::sync::atomic::Atomic::<u64>::compare_exchange_weak, env::env_cas_weak)]
#[kani::stub(std::sync::atomic::Atomic::<u64>::store, env::env_store)]
#[kani::stub(std::sync::atomic::Atomic::<u64>::fetch_add, env::env_fetch_add)]
#[kani::stub(std::sync::atomic::Atomic::<u64>::swap, env::env_swap)]
fn c01_f64_get_set_steps() {
    env::reset(0);
    let a = AtomicF64::new(kani::any());
    assert!(env::n() == 0, "C01.f64.new: atomic step in constructor");
    let cell = env::addr_u(&a.inner);
    let g = a.get();
    assert!(env::n() == 1, "C01.f64.get: not exactly one atomic step");
    let e = env::ev(0);
    assert!(e.kind == env::LOAD && e.cell == cell, "C01.f64.get: step is not a load of the cell");
    assert!(g.to_bits() == e.ret, "C01.f64.get: returned value is not the loaded one");
    let v: f64 = kani::any();
    a.set(v);
    assert!(env::n() == 2, "C11.f64.set: not exactly one atomic step");
    let e = env::ev(1);
    assert!(e.kind == env::STORE && e.cell == cell && e.a == v.to_bits(), "C11.f64.set: step is not one store of the value's bits");
}

//@ id: c01_u64_steps
//@ prop: C01
//@ tier: quick
//@ strength: complete
//@ fn: atomic64::AtomicU64::inc_by, atomic64::AtomicU64::inc_by_with_ordering, atomic64::AtomicU64::get, atomic64::AtomicU64::set, atomic64::AtomicU64::dec_by
//@ obligation: inc_by(d) is exactly one fetch_add(d) and nothing else (inc_by_with_ordering passes its ordering on); get is one load returning the loaded value; set one store; dec_by one fetch_sub
#[kani::proof]
#[kani::unwind(4)]
#[kani::stub(std::sync::atomic::Atomic::<u64>::load, env::env_load)]
#[kani::stub(std::sync::atomic::Atomic::<u64>::compare_exchange_weak, env::env_cas_weak)]
#[kani::stub(std::sync::atomic::Atomic::<u64>::store, env::env_store)]
#[kani::stub(std::sync::atomic::Atomic::<u64>::fetch_add, env::env_fetch_add)]
#[kani::stub(std::sync::atomic::Atomic::<u64>::fetch_sub, env::env_fetch_sub)]
#[kani::stub(std::sync::atomic::Atomic::<u64>::swap, env::env_swap)]
fn c01_u64_steps() {
    env::reset(0);
    let a = AtomicU64::new(kani::any());
    assert!(env::n() == 0, "C01.u64.new: atomic step in constructor");
    let cell = env::addr_u(&a.inner);
    let d: u64 = kani::any();
    a.inc_by(d);
    assert!(env::n() == 1, "C01.u64.inc_by: not exactly one atomic step");
    let e = env::ev(0);
    assert!(e.kind == env::FADD && e.cell == cell && e.a == d, "C01.u64.inc_by: step is not fetch_add(delta) on the cell");
    let g = a.get();
    assert!(env::n() == 2 && env::ev(1).kind == env::LOAD && env::ev(1).cell == cell && env::ev(1).ret == g, "C01.u64.get: not one load whose value is returned");
    let v: u64 = kani::any();
    a.set(v);
    assert!(env::n() == 3 && env::ev(2).kind == env::STORE && env::ev(2).cell == cell && env::ev(2).a == v, "C01.u64.set: not one store of the value");
    let o: u8 = kani::any();
    kani::assume(o <= 3);
    let ordv = match o { 0 => Ordering::Relaxed, 1 => Ordering::Release, 2 => Ordering::Acquire, _ => Ordering::AcqRel };
    a.inc_by_with_ordering(d, ordv);
    assert!(env::n() == 4, "C01.u64.inc_by_with_ordering: not exactly one step");
    let e = env::ev(3);
    assert!(e.kind == env::FADD && e.cell == cell && e.a == d && e.ord == env::ord(ordv), "C01.u64.inc_by_with_ordering: wrong step or ordering dropped");
    a.dec_by(d);
    assert!(env::n() == 5 && env::ev(4).kind == env::FSUB && env::ev(4).a == d && env::ev(4).cell == cell, "C01.u64.dec_by: not one fetch_sub(delta)");
}

//@ id: c11_i64_steps
//@ prop: C11
//@ tier: quick
//@ strength: complete
//@ fn: atomic64::AtomicI64::inc_by, atomic64::AtomicI64::dec_by, atomic64::AtomicI64::get, atomic64::AtomicI64::set
//@ obligation: inc_by(d) is exactly one fetch_add(d); dec_by(d) exactly one fetch_sub(d); get one load returning the loaded value; set one store of the value
#[kani::proof]
#[kani::unwind(4)]
#[kani::stub(std::sync::atomic::Atomic::<i64>::load, env::env_load_i)]
#[kani::stub(std::sync::atomic::Atomic::<i64>::store, env::env_store_i)]
#[kani::stub(std::sync::atomic::Atomic::<i64>::fetch_add, env::env_fetch_add_i)]
#[kani::stub(std::sync::atomic::Atomic::<i64>::fetch_sub, env::env_fetch_sub_i)]
fn c11_i64_steps() {
    env::reset(0);
    let a = AtomicI64::new(kani::any());
    assert!(env::n() == 0, "C11.i64.new: atomic step in constructor");
    let cell = env::addr_i(&a.inner);
    let d: i64 = kani::any();
    a.inc_by(d);
    assert!(env::n() == 1 && env::ev(0).kind == env::FADD && env::ev(0).cell == cell && env::ev(0).a == d as u64, "C11.i64.inc_by: not one fetch_add(delta)");
    a.dec_by(d);
    assert!(env::n() == 2 && env::ev(1).kind == env::FSUB && env::ev(1).cell == cell && env::ev(1).a == d as u64, "C11.i64.dec_by: not one fetch_sub(delta)");
    let g = a.get();
    assert!(env::n() == 3 && env::ev(2).kind == env::LOAD && env::ev(2).cell == cell && env::ev(2).ret == g as u64, "C11.i64.get: not one load whose value is returned");
    let v: i64 = kani::any();
    a.set(v);
    assert!(env::n() == 4 && env::ev(3).kind == env::STORE && env::ev(3).cell == cell && env::ev(3).a == v as u64, "C11.i64.set: not one store of the value");
}

fn a_bits(x: f64) -> u64 {
    x.to_bits()
}

//@ id: c01_sequential_functional
//@ prop: C01, C11
//@ tier: quick
//@ strength: complete (real std atomics, no interference: the sequential functional contract)
//@ fn: atomic64::AtomicF64::inc_by, atomic64::AtomicF64::dec_by, atomic64::AtomicU64::inc_by, atomic64::AtomicI64::inc_by, atomic64::AtomicI64::dec_by
//@ obligation: without interference inc_by(d) takes effect exactly once: u64 c -> c + d (wrapping), i64 likewise; i64 dec_by(x) undoes inc_by(x) exactly
#[kani::proof]
#[kani::unwind(3)]
fn c01_sequential_functional() {
    let cu: u64 = kani::any();
    let du: u64 = kani::any();
    let u = AtomicU64::new(cu);
    u.inc_by(du);
    assert!(u.get() == cu.wrapping_add(du), "C01.u64.inc_by sequential");
    let ci: i64 = kani::any();
    let di: i64 = kani::any();
    let g = AtomicI64::new(ci);
    g.inc_by(di);
    assert!(g.get() == ci.wrapping_add(di), "C11.i64.inc_by sequential");
    g.dec_by(di);
    assert!(g.get() == ci, "C11.i64: sub(x) does not undo add(x)");
    g.set(di);
    assert!(g.get() == di, "C11.i64.set/get");
}

//@ id: c01_f64_add_nonneg_monotone
//@ prop: C01
//@ tier: quick
//@ strength: complete (every pair of f64 bit patterns)
//@ fn: atomic64::AtomicF64::inc_by
//@ obligation: for a non-NaN content x and a delta d >= 0, the written value x + d is never less than x (so values along the modification order never decrease for a float counter)
#[kani::proof]
#[kani::unwind(4)]
fn c01_f64_add_nonneg_monotone() {
    let x: f64 = kani::any();
    let d: f64 = kani::any();
    kani::assume(!x.is_nan());
    kani::assume(d >= 0.0);
    let y = x + d;
    assert!(!(y < x), "C01: x + d < x for d >= 0");
    kani::cover!(y > x);
}

//@ id: c01_wrapper_layout
//@ prop: C01, C11
//@ tier: quick
//@ strength: complete
//@ fn: atomic64::AtomicF64, atomic64::AtomicU64, atomic64::AtomicI64
//@ obligation: the wrapper structs hold their std atomic at offset 0 (lets harnesses outside this module identify the cell by the wrapper's address)
#[kani::proof]
#[kani::unwind(4)]
fn c01_wrapper_layout() {
    let a = AtomicF64::new(0.0);
    assert!(addr_of(&a) == env::addr_u(&a.inner), "layout f64");
    let b = AtomicU64::new(0);
    assert!(addr_of(&b) == env::addr_u(&b.inner), "layout u64");
    let c = AtomicI64::new(0);
    assert!(addr_of(&c) == env::addr_i(&c.inner), "layout i64");
}

//@ id: c01_f64_sequential_functional
//@ prop: C01, C11
//@ tier: thorough
//@ strength: complete (real std atomics, no interference)
//@ fn: atomic64::AtomicF64::inc_by, atomic64::AtomicF64::dec_by
//@ obligation: without interference inc_by(d) maps content c to c + d (IEEE) and dec_by(d) maps c to c + (-d)
#[kani::proof]
#[kani::unwind(3)]
fn c01_f64_sequential_functional() {
    let cb: u64 = kani::any();
    let d: f64 = kani::any();
    let a = AtomicF64 { inner: StdAtomicU64::new(cb) };
    let neg: bool = kani::any();
    if neg {
        a.dec_by(d);
        assert!(feq(a.get(), f64::from_bits(cb) + (-d)), "C11.f64.dec_by sequential: value is not c + (-d)");
    } else {
        a.inc_by(d);
        assert!(feq(a.get(), f64::from_bits(cb) + d), "C01.f64.inc_by sequential: value is not c + d");
    }
}

//@ id: c01_f64_inc_by_never_gives_up_k66
//@ prop: C01, C11
//@ tier: quick
//@ strength: complete in values and interference; the environment may refuse up to K=66 consecutive exchanges (weak or strong), unwinding assertion on
//@ fn: atomic64::AtomicF64::inc_by
//@ obligation: however often the exchange is refused (up to 66 times here), inc_by returns only after exactly one successful exchange -- it never gives up and drops the increment after a bounded number of attempts
#[kani::proof]
#[kani::unwind(70)]
#[kani::stub(std::sync::atomic::Atomic::<u64>::load, env::env_load)]
#[kani::stub(std::sync::atomic::Atomic::<u64>::compare_exchange_weak, env::env_cas_weak)]
#[kani::stub(std::sync::atomic::Atomic::<u64>::compare_exchange, env::env_cas_strong)]
#[kani::stub(std::sync::atomic::Atomic::<u64>::store, env::env_store)]
#[kani::stub(std::sync::atomic::Atomic::<u64>::fetch_add, env::env_fetch_add)]
#[kani::stub(std::sync::atomic::Atomic::<u64>::swap, env::env_swap)]
fn c01_f64_inc_by_never_gives_up_k66() {
    env::reset(66);
    env::count_only();
    let a = AtomicF64::new(kani::any());
    let d: f64 = kani::any();
    a.inc_by(d);
    assert!(env::cas_ok() == 1, "C01.f64.inc_by: returned without exactly one successful exchange (the increment is dropped or doubled when the exchange keeps being refused)");
    kani::cover!(env::cas_fails() == 66);
}
