//! C08 — bucket rule `value <= upper bound` for every input.
//! Child module of src/histogram.rs (sees private items).
#![allow(dead_code, unused)]
use super::*;
use crate::__vsup::*;

/// A `HistogramCore` built field by field (no `Desc::new`, no bucket validation): the
/// state space the step obligations quantify over is "any core with these bounds".
pub(crate) fn mk_core(bounds: Vec<f64>) -> HistogramCore {
    let n = bounds.len();
    HistogramCore {
        desc: mk_desc(),
        label_pairs: Vec::new(),
        collect_lock: Mutex::new(()),
        shard_and_count: ShardAndCount::new(),
        shards: [Shard::new(n), Shard::new(n)],
        upper_bounds: bounds,
    }
}

/// A local histogram in an arbitrary (hand-made) state.  Built with `new` + field assignment so
/// that it still compiles when the struct gains a field; but a changed layout means the
/// representation (and its invariant) changed, so harnesses over hand-made states are then made
/// vacuous (`assume(false)`), which the driver reports as UNDECIDED through their `cover!`.
pub(crate) fn mk_local(h: &Histogram, counts: Vec<u64>, count: u64, sum: f64) -> LocalHistogramCore {
    if core::mem::size_of::<LocalHistogramCore>() != 48 {
        kani::assume(false);
    }
    let mut l = LocalHistogramCore::new(h.clone());
    l.counts = counts;
    l.count = count;
    l.sum = sum;
    l
}

/// spec: accepted configuration = no NaN, strictly increasing
pub(crate) fn spec_strictly_increasing(b: &[f64]) -> bool {
    let mut i = 0;
    while i < b.len() {
        if b[i].is_nan() {
            return false;
        }
        if i + 1 < b.len() && !(b[i] < b[i + 1]) {
            return false;
        }
        i += 1;
    }
    true
}

/// spec: first-fit index
pub(crate) fn spec_first_fit(b: &[f64], v: f64) -> Option<usize> {
    let mut i = 0;
    while i < b.len() {
        if v <= b[i] {
            return Some(i);
        }
        i += 1;
    }
    None
}

fn adjust_obligation<const N: usize>() {
    let input: [f64; N] = kani::any();
    let r = check_and_adjust_buckets(input.to_vec());
    let accept = spec_strictly_increasing(&input);
    match r {
        Ok(out) => {
            assert!(accept, "C08.adjust: accepted a bucket list that is not strictly increasing numbers");
            // result = input minus a trailing +Inf
            let drop_inf = N > 0 && input[N - 1] == f64::INFINITY;
            let exp_len = if drop_inf { N - 1 } else { N };
            assert!(out.len() == exp_len, "C08.adjust: result length");
            let mut i = 0;
            while i < exp_len {
                assert!(out[i].to_bits() == input[i].to_bits(), "C08.adjust: result element changed");
                i += 1;
            }
        }
        Err(_) => {
            assert!(!accept, "C08.adjust: refused a strictly increasing bucket list");
        }
    }
}

//@ id: c08_adjust_empty_selects_default
//@ prop: C08
//@ tier: quick
//@ strength: complete
//@ fn: histogram::check_and_adjust_buckets
//@ obligation: an empty list is accepted and yields DEFAULT_BUCKETS
#[kani::proof]
#[kani::unwind(13)]
#[kani::stub(alloc::fmt::format, stub_format)]
fn c08_adjust_empty_selects_default() {
    let r = check_and_adjust_buckets(Vec::new());
    match r {
        Ok(out) => {
            assert!(out.len() == DEFAULT_BUCKETS.len(), "C08.adjust: default length");
            let mut i = 0;
            while i < DEFAULT_BUCKETS.len() {
                assert!(out[i] == DEFAULT_BUCKETS[i], "C08.adjust: default element");
                i += 1;
            }
        }
        Err(_) => assert!(false, "C08.adjust: empty list refused"),
    }
}

//@ id: c08_adjust_len1
//@ prop: C08
//@ tier: quick
//@ strength: complete in values (every f64 bit pattern), length 1
//@ fn: histogram::check_and_adjust_buckets
//@ obligation: Ok <=> bounds are non-NaN and strictly increasing; result = input minus a trailing +Inf
#[kani::proof]
#[kani::unwind(4)]
#[kani::stub(alloc::fmt::format, stub_format)]
fn c08_adjust_len1() {
    adjust_obligation::<1>();
}

//@ id: c08_adjust_len2
//@ prop: C08
//@ tier: quick
//@ strength: complete in values, length 2
//@ fn: histogram::check_and_adjust_buckets
//@ obligation: Ok <=> bounds are non-NaN and strictly increasing; result = input minus a trailing +Inf
#[kani::proof]
#[kani::unwind(5)]
#[kani::stub(alloc::fmt::format, stub_format)]
fn c08_adjust_len2() {
    adjust_obligation::<2>();
}

//@ id: c08_adjust_len3
//@ prop: C08
//@ tier: quick
//@ strength: complete in values, length 3
//@ fn: histogram::check_and_adjust_buckets
//@ obligation: Ok <=> bounds are non-NaN and strictly increasing; result = input minus a trailing +Inf
#[kani::proof]
#[kani::unwind(6)]
#[kani::stub(alloc::fmt::format, stub_format)]
fn c08_adjust_len3() {
    adjust_obligation::<3>();
}

//@ id: c08_adjust_len4
//@ prop: C08
//@ tier: thorough
//@ strength: complete in values, length 4
//@ fn: histogram::check_and_adjust_buckets
//@ obligation: Ok <=> bounds are non-NaN and strictly increasing; result = input minus a trailing +Inf
#[kani::proof]
#[kani::unwind(7)]
#[kani::stub(alloc::fmt::format, stub_format)]
fn c08_adjust_len4() {
    adjust_obligation::<4>();
}

// ---------------------------------------------------------------------------------------------
// first-fit rule on the real observe paths

fn any_bounds<const B: usize>() -> [f64; B] {
    let b: [f64; B] = kani::any();
    // precondition: an *accepted* configuration (what check_and_adjust_buckets lets through),
    // possibly still carrying a non-trailing... no: +Inf can only be last and is dropped, but a
    // finite strictly increasing list may end in any number, so do not exclude anything else.
    kani::assume(spec_strictly_increasing(&b));
    b
}

//@ id: c08_le_chain
//@ prop: C08
//@ tier: quick
//@ strength: complete (every triple of f64 bit patterns)
//@ fn: f64::le
//@ obligation: (K3) v <= a && a < b ==> v <= b, the only fact about floats the Verus lifting lemma assumes
#[kani::proof]
fn c08_le_chain() {
    let v: f64 = kani::any();
    let a: f64 = kani::any();
    let b: f64 = kani::any();
    if v <= a && a < b {
        assert!(v <= b, "C08.K3: float order chain");
    }
    kani::cover!(v <= a && a < b);
}

fn observe_obligation<const B: usize>() {
    let bounds = any_bounds::<B>();
    let core = mk_core(bounds.to_vec());
    // arbitrary pre-state of the hot shard (shard 0 is hot in a fresh core)
    let pre: [u64; B] = kani::any();
    let mut i = 0;
    while i < B {
        core.shards[0].buckets[i].set(pre[i]);
        i += 1;
    }
    let pre_sum: f64 = kani::any();
    let pre_cnt: u64 = kani::any();
    kani::assume(pre_cnt < (1u64 << 62));
    core.shards[0].sum.set(pre_sum);
    core.shards[0].count.set(pre_cnt);

    let v: f64 = kani::any();
    core.observe(v);

    let ff = spec_first_fit(&bounds, v);
    let mut i = 0;
    while i < B {
        let now = core.shards[0].buckets[i].get();
        if Some(i) == ff {
            assert!(now == pre[i].wrapping_add(1), "C08.observe: first-fit bucket (least i with v <= bound[i]) not incremented by exactly 1");
        } else {
            assert!(now == pre[i], "C08.observe: a bucket other than the first-fit one changed");
        }
        assert!(core.shards[1].buckets[i].get() == 0, "C08.observe: cold shard touched");
        i += 1;
    }
    assert!(core.shards[0].count.get() == pre_cnt + 1, "C08.observe: shard count not incremented by 1");
    assert!(feq(core.shards[0].sum.get(), pre_sum + v), "C08.observe: sum is not IEEE pre_sum + v");
    assert!(core.sample_count() == 1, "C08.observe: overall count not incremented by 1");
    kani::cover!(ff.is_none());
    kani::cover!(v.is_nan());
    kani::cover!(ff == Some(B - 1));
}

//@ id: c08_observe_first_fit_b3
//@ prop: C08
//@ tier: quick
//@ strength: bounded(B=3 buckets), complete in values (every f64 observation and bounds, arbitrary pre-state)
//@ fn: histogram::HistogramCore::observe
//@ obligation: exactly the bucket with the least i such that v <= bound[i] grows by 1 (none for NaN / above all bounds); count+1; sum = sum + v
#[kani::proof]
#[kani::unwind(5)]
fn c08_observe_first_fit_b3() {
    observe_obligation::<3>();
}

//@ id: c08_observe_first_fit_b4
//@ prop: C08
//@ tier: thorough
//@ strength: bounded(B=4 buckets), complete in values
//@ fn: histogram::HistogramCore::observe
//@ obligation: exactly the bucket with the least i such that v <= bound[i] grows by 1 (none for NaN / above all bounds); count+1; sum = sum + v
#[kani::proof]
#[kani::unwind(6)]
fn c08_observe_first_fit_b4() {
    observe_obligation::<4>();
}

fn local_observe_obligation<const B: usize>() {
    let bounds = any_bounds::<B>();
    let h = Histogram { core: Arc::new(mk_core(bounds.to_vec())) };
    let pre: [u64; B] = kani::any();
    let pre_sum: f64 = kani::any();
    let pre_cnt: u64 = kani::any();
    kani::assume(pre_cnt < u64::MAX);
    let mut i = 0;
    while i < B {
        kani::assume(pre[i] < u64::MAX);
        i += 1;
    }
    let mut l = mk_local(&h, pre.to_vec(), pre_cnt, pre_sum);
    let v: f64 = kani::any();
    l.observe(v);
    let ff = spec_first_fit(&bounds, v);
    let mut i = 0;
    while i < B {
        if Some(i) == ff {
            assert!(l.counts[i] == pre[i] + 1, "C08.local_observe: first-fit bucket not incremented by exactly 1");
        } else {
            assert!(l.counts[i] == pre[i], "C08.local_observe: another bucket changed");
        }
        i += 1;
    }
    assert!(l.count == pre_cnt + 1, "C08.local_observe: count");
    assert!(feq(l.sum, pre_sum + v), "C08.local_observe: sum");
    // nothing reaches the shared histogram before flush
    assert!(h.core.sample_count() == 0, "C08.local_observe: shared histogram touched before flush");
    kani::cover!(true);
    core::mem::forget(l);
}

//@ id: c08_local_observe_first_fit_b3
//@ prop: C08
//@ tier: quick
//@ strength: bounded(B=3 buckets), complete in values
//@ fn: histogram::LocalHistogramCore::observe
//@ obligation: a local histogram buckets by the same first-fit rule v <= bound[i]; count+1; sum = sum + v; shared histogram untouched
#[kani::proof]
#[kani::unwind(5)]
fn c08_local_observe_first_fit_b3() {
    local_observe_obligation::<3>();
}

fn proto_cumulative_obligation<const B: usize>() {
    let bounds = any_bounds::<B>();
    let core = mk_core(bounds.to_vec());
    let pre: [u64; B] = kani::any();
    let mut tot: u64 = 0;
    let mut i = 0;
    while i < B {
        kani::assume(pre[i] < (1u64 << 40));
        core.shards[0].buckets[i].set(pre[i]);
        tot += pre[i];
        i += 1;
    }
    let over: u64 = kani::any(); // observations that fit no bucket
    kani::assume(over < (1u64 << 40));
    let n = tot + over;
    let sum: f64 = kani::any();
    core.shards[0].sum.set(sum);
    core.shards[0].count.set(n);
    core.shard_and_count.inner.store(n, Ordering::Relaxed);

    let h = core.proto();
    assert!(h.get_sample_count() == n, "C08.proto: sample count");
    // sum = 0.0 + drained sum? no: the snapshot carries the drained value itself
    assert!(feq(h.get_sample_sum(), sum), "C08.proto: sample sum");
    let bs = h.get_bucket();
    assert!(bs.len() == B, "C08.proto: one bucket per bound");
    let mut acc: u64 = 0;
    let mut i = 0;
    while i < B {
        acc += pre[i];
        assert!(bs[i].cumulative_count() == acc, "C08.proto: cumulative[i] != sum of bucket[0..=i]");
        assert!(bs[i].upper_bound().to_bits() == bounds[i].to_bits(), "C08.proto: bucket bound");
        i += 1;
    }
}

//@ id: c08_proto_cumulative_b3
//@ prop: C08
//@ tier: quick
//@ strength: bounded(B=3 buckets), complete in values
//@ fn: histogram::HistogramCore::proto
//@ obligation: (K2) the snapshot's cumulative count for bound i is the sum of the per-bucket counts 0..=i, bounds in order, count and sum as stored
#[kani::proof]
#[kani::unwind(5)]
fn c08_proto_cumulative_b3() {
    proto_cumulative_obligation::<3>();
}

//@ id: c08_end_to_end_two_observations
//@ prop: C08
//@ tier: quick
//@ strength: bounded(B=2 buckets, 2 observations), complete in values
//@ fn: histogram::HistogramCore::observe, histogram::HistogramCore::proto
//@ obligation: property statement verbatim for two observations: each bound reports #{observations <= bound}, count = 2, sum = (0 + v1) + v2
#[kani::proof]
#[kani::unwind(4)]
fn c08_end_to_end_two_observations() {
    let bounds = any_bounds::<2>();
    let core = mk_core(bounds.to_vec());
    let v1: f64 = kani::any();
    let v2: f64 = kani::any();
    core.observe(v1);
    core.observe(v2);
    let h = core.proto();
    assert!(h.get_sample_count() == 2, "C08.e2e: sample count");
    assert!(feq(h.get_sample_sum(), (0.0 + v1) + v2), "C08.e2e: sample sum in observation order");
    let bs = h.get_bucket();
    let mut i = 0;
    while i < 2 {
        let exp = (v1 <= bounds[i]) as u64 + (v2 <= bounds[i]) as u64;
        assert!(bs[i].cumulative_count() == exp, "C08.e2e: bound does not report the number of observations not greater than it");
        i += 1;
    }
}
