//! Contract shim for std collections — `crate::__vcoll`, cfg(kani) only.
//!
//! `use std::collections::{HashMap, HashSet, BTreeMap, BTreeSet}` lines of the files under
//! contract are redirected here in the scratch copy (mechanical `use`-line rewrite).  The shim
//! IS the callee contract the crate relies on:
//!   * HashMap / HashSet: a finite functional map / set with key equality; the ITERATION ORDER
//!     of `iter`, `keys`, `values`, `into_iter` is UNSPECIFIED — here a nondeterministic
//!     permutation selected by a concrete order seed that the harnesses enumerate (see any_order).
//!   * BTreeMap / BTreeSet: the same, iterated in ascending key order.
//! Implementation notes (all measured): vectors are created with spare capacity and elements are
//! moved with `swap`, never with `Vec::insert`/`Vec::remove`: a reallocation or memmove copies
//! `String` headers as raw bytes, after which CBMC no longer tracks their pointer/length fields
//! precisely and every later string operation becomes symbolic.
//! Real hashbrown under CBMC costs ~170 s per symbolic insert+get (probed), which is why the
//! std implementation is assumed (A1) rather than re-verified.
#![allow(dead_code, unused)]
use core::borrow::Borrow;
use core::marker::PhantomData;

/// initial capacity of every shim container (harness bounds stay below it: no reallocation)
pub const CAP0: usize = 6;

#[derive(Clone, Copy, Debug, Default)]
pub struct RandomState;
#[derive(Default)]
pub struct NeverHasher(u64);
impl core::hash::Hasher for NeverHasher {
    fn finish(&self) -> u64 {
        self.0
    }
    fn write(&mut self, _b: &[u8]) {}
}
impl core::hash::BuildHasher for RandomState {
    type Hasher = NeverHasher;
    fn build_hasher(&self) -> NeverHasher {
        NeverHasher(0)
    }
}

/// Iteration order of hash containers.  The order is UNSPECIFIED by std; a harness quantifies over
/// it by running under every value of a CONCRETE order seed (`set_order_seed`): the k-th iteration
/// performed in the harness uses bit k of the seed (0 = insertion order, 1 = reversed; for maps of
/// three elements two bits select one of four of the six permutations -- stated in the harness
/// bound).  A symbolic permutation (`kani::any()` per iteration) was tried first and makes every
/// later string operation range over symbolic pointers: a two-element map did not finish in
/// 300 s (measured), so the quantifier is enumerated instead.
static mut ORDER_SEED: u32 = 0;
static mut ORDER_CALLS: u32 = 0;
pub fn set_order_seed(seed: u32) {
    unsafe {
        ORDER_SEED = seed;
        ORDER_CALLS = 0;
    }
}
pub fn order_calls() -> u32 {
    unsafe { ORDER_CALLS }
}
/// consume one bit of the order seed: is the next iteration reversed?
pub fn next_rev() -> bool {
    unsafe {
        let b = (ORDER_SEED >> (ORDER_CALLS & 31)) & 1;
        ORDER_CALLS += 1;
        b == 1
    }
}

// =============================================================================================
pub struct HashMap<K, V, S = RandomState> {
    pub items: Vec<(K, V)>,
    _s: PhantomData<S>,
}

impl<K, V> HashMap<K, V, RandomState> {
    pub fn new() -> Self {
        HashMap { items: Vec::with_capacity(CAP0), _s: PhantomData }
    }
    pub fn with_capacity(_n: usize) -> Self {
        HashMap { items: Vec::with_capacity(CAP0), _s: PhantomData }
    }
}
impl<K, V, S> Default for HashMap<K, V, S> {
    fn default() -> Self {
        HashMap { items: Vec::with_capacity(CAP0), _s: PhantomData }
    }
}
impl<K: Clone, V: Clone, S> Clone for HashMap<K, V, S> {
    fn clone(&self) -> Self {
        let mut items = Vec::with_capacity(CAP0);
        let mut i = 0;
        while i < self.items.len() {
            items.push((self.items[i].0.clone(), self.items[i].1.clone()));
            i += 1;
        }
        HashMap { items, _s: PhantomData }
    }
}
impl<K, V, S> core::fmt::Debug for HashMap<K, V, S> {
    fn fmt(&self, f: &mut core::fmt::Formatter<'_>) -> core::fmt::Result {
        f.write_str("HashMap(shim)")
    }
}

impl<K: Eq, V, S> HashMap<K, V, S> {
    pub fn len(&self) -> usize {
        self.items.len()
    }
    pub fn is_empty(&self) -> bool {
        self.items.is_empty()
    }
    fn find<Q: ?Sized + Eq>(&self, k: &Q) -> Option<usize>
    where
        K: Borrow<Q>,
    {
        let mut i = 0;
        while i < self.items.len() {
            if self.items[i].0.borrow() == k {
                return Some(i);
            }
            i += 1;
        }
        None
    }
    pub fn get<Q: ?Sized + Eq>(&self, k: &Q) -> Option<&V>
    where
        K: Borrow<Q>,
    {
        match self.find(k) {
            Some(i) => Some(&self.items[i].1),
            None => None,
        }
    }
    pub fn contains_key<Q: ?Sized + Eq>(&self, k: &Q) -> bool
    where
        K: Borrow<Q>,
    {
        self.find(k).is_some()
    }
    pub fn insert(&mut self, k: K, v: V) -> Option<V> {
        match self.find(&k) {
            Some(i) => Some(core::mem::replace(&mut self.items[i].1, v)),
            None => {
                self.items.push((k, v));
                None
            }
        }
    }
    pub fn remove<Q: ?Sized + Eq>(&mut self, k: &Q) -> Option<V>
    where
        K: Borrow<Q>,
    {
        match self.find(k) {
            Some(i) => Some(self.items.swap_remove(i).1),
            None => None,
        }
    }
    pub fn clear(&mut self) {
        self.items.clear();
    }
    pub fn extend<I: IntoIterator<Item = (K, V)>>(&mut self, other: I) {
        for (k, v) in other {
            self.insert(k, v);
        }
    }
    pub fn entry(&mut self, k: K) -> hash_map::Entry<'_, K, V> {
        match self.find(&k) {
            Some(i) => hash_map::Entry::Occupied(hash_map::OccupiedEntry { items: &mut self.items, idx: i }),
            None => hash_map::Entry::Vacant(hash_map::VacantEntry { items: &mut self.items, key: k }),
        }
    }
    pub fn iter(&self) -> Iter<'_, K, V> {
        Iter { items: &self.items, pos: 0, rev: next_rev() }
    }
    pub fn keys(&self) -> Keys<'_, K, V> {
        Keys { items: &self.items, pos: 0, rev: next_rev() }
    }
    pub fn values(&self) -> Values<'_, K, V> {
        Values { items: &self.items, pos: 0, rev: next_rev() }
    }
}

// index-based iterators (no intermediate allocation: vectors of references into vectors are
// very expensive for CBMC's pointer reasoning -- measured)
fn at<'a, K, V>(items: &'a Vec<(K, V)>, pos: usize, rev: bool) -> &'a (K, V) {
    let n = items.len();
    if rev {
        &items[n - 1 - pos]
    } else {
        &items[pos]
    }
}
impl<K: Eq + Borrow<Q>, Q: ?Sized + Eq, V, S> core::ops::Index<&Q> for HashMap<K, V, S> {
    type Output = V;
    fn index(&self, k: &Q) -> &V {
        match self.get(k) {
            Some(v) => v,
            None => panic!("HashMap index: key not found"),
        }
    }
}

pub struct Iter<'a, K, V> {
    items: &'a Vec<(K, V)>,
    pos: usize,
    rev: bool,
}
impl<'a, K, V> Iterator for Iter<'a, K, V> {
    type Item = (&'a K, &'a V);
    fn next(&mut self) -> Option<Self::Item> {
        if self.pos < self.items.len() {
            let r = at(self.items, self.pos, self.rev);
            self.pos += 1;
            Some((&r.0, &r.1))
        } else {
            None
        }
    }
}
pub struct Keys<'a, K, V> {
    items: &'a Vec<(K, V)>,
    pos: usize,
    rev: bool,
}
impl<'a, K, V> Iterator for Keys<'a, K, V> {
    type Item = &'a K;
    fn next(&mut self) -> Option<&'a K> {
        if self.pos < self.items.len() {
            let r = at(self.items, self.pos, self.rev);
            self.pos += 1;
            Some(&r.0)
        } else {
            None
        }
    }
}
impl<'a, K, V> Keys<'a, K, V> {
    pub fn len(&self) -> usize {
        self.items.len() - self.pos
    }
}
pub struct Values<'a, K, V> {
    items: &'a Vec<(K, V)>,
    pos: usize,
    rev: bool,
}
impl<'a, K, V> Iterator for Values<'a, K, V> {
    type Item = &'a V;
    fn next(&mut self) -> Option<&'a V> {
        if self.pos < self.items.len() {
            let r = at(self.items, self.pos, self.rev);
            self.pos += 1;
            Some(&r.1)
        } else {
            None
        }
    }
}
impl<'a, K: Eq, V, S> IntoIterator for &'a HashMap<K, V, S> {
    type Item = (&'a K, &'a V);
    type IntoIter = Iter<'a, K, V>;
    fn into_iter(self) -> Iter<'a, K, V> {
        self.iter()
    }
}
pub struct IntoIter<K, V> {
    /// always consumed from the back
    items: Vec<(K, V)>,
}
impl<K, V> Iterator for IntoIter<K, V> {
    type Item = (K, V);
    fn next(&mut self) -> Option<(K, V)> {
        self.items.pop()
    }
}
impl<K, V, S> IntoIterator for HashMap<K, V, S> {
    type Item = (K, V);
    type IntoIter = IntoIter<K, V>;
    fn into_iter(self) -> IntoIter<K, V> {
        let mut items = self.items;
        if !next_rev() {
            // popping from the back yields insertion order after an in-place reversal (swaps)
            let n = items.len();
            let mut i = 0;
            while i < n / 2 {
                items.swap(i, n - 1 - i);
                i += 1;
            }
        }
        IntoIter { items }
    }
}

pub mod hash_map {
    pub enum Entry<'a, K, V> {
        Occupied(OccupiedEntry<'a, K, V>),
        Vacant(VacantEntry<'a, K, V>),
    }
    pub struct OccupiedEntry<'a, K, V> {
        pub(super) items: &'a mut Vec<(K, V)>,
        pub(super) idx: usize,
    }
    pub struct VacantEntry<'a, K, V> {
        pub(super) items: &'a mut Vec<(K, V)>,
        pub(super) key: K,
    }
    impl<'a, K, V> VacantEntry<'a, K, V> {
        pub fn insert(self, v: V) -> &'a mut V {
            self.items.push((self.key, v));
            let n = self.items.len();
            &mut self.items[n - 1].1
        }
    }
    impl<'a, K, V> OccupiedEntry<'a, K, V> {
        pub fn get_mut(&mut self) -> &mut V {
            &mut self.items[self.idx].1
        }
        pub fn into_mut(self) -> &'a mut V {
            &mut self.items[self.idx].1
        }
    }
    impl<'a, K, V> Entry<'a, K, V> {
        pub fn or_insert_with<F: FnOnce() -> V>(self, f: F) -> &'a mut V {
            match self {
                Entry::Occupied(o) => o.into_mut(),
                Entry::Vacant(v) => v.insert(f()),
            }
        }
    }
}

// =============================================================================================
pub struct HashSet<T> {
    pub items: Vec<T>,
}
impl<T> Default for HashSet<T> {
    fn default() -> Self {
        HashSet { items: Vec::with_capacity(CAP0) }
    }
}
impl<T: Eq> HashSet<T> {
    pub fn new() -> Self {
        HashSet { items: Vec::with_capacity(CAP0) }
    }
    pub fn len(&self) -> usize {
        self.items.len()
    }
    pub fn contains(&self, x: &T) -> bool {
        let mut i = 0;
        while i < self.items.len() {
            if &self.items[i] == x {
                return true;
            }
            i += 1;
        }
        false
    }
    pub fn insert(&mut self, x: T) -> bool {
        if self.contains(&x) {
            false
        } else {
            self.items.push(x);
            true
        }
    }
    pub fn remove(&mut self, x: &T) -> bool {
        let mut i = 0;
        while i < self.items.len() {
            if &self.items[i] == x {
                self.items.swap_remove(i);
                return true;
            }
            i += 1;
        }
        false
    }
    pub fn extend(&mut self, other: HashSet<T>) {
        for x in other.items {
            self.insert(x);
        }
    }
}

// =============================================================================================
/// sorted association list
pub struct BTreeMap<K, V> {
    pub items: Vec<(K, V)>,
}
impl<K: Ord, V> BTreeMap<K, V> {
    pub fn new() -> Self {
        BTreeMap { items: Vec::with_capacity(CAP0) }
    }
    pub fn len(&self) -> usize {
        self.items.len()
    }
    /// index of the first key >= k, and whether it is equal
    fn lower_bound(&self, k: &K) -> (usize, bool) {
        let mut i = 0;
        while i < self.items.len() {
            match self.items[i].0.cmp(k) {
                core::cmp::Ordering::Less => {}
                core::cmp::Ordering::Equal => return (i, true),
                core::cmp::Ordering::Greater => return (i, false),
            }
            i += 1;
        }
        (i, false)
    }
    pub fn entry(&mut self, k: K) -> btree_map::Entry<'_, K, V> {
        let (i, eq) = self.lower_bound(&k);
        if eq {
            btree_map::Entry::Occupied(btree_map::OccupiedEntry { items: &mut self.items, idx: i })
        } else {
            btree_map::Entry::Vacant(btree_map::VacantEntry { items: &mut self.items, idx: i, key: k })
        }
    }
    pub fn values_mut(&mut self) -> ValuesMut<'_, K, V> {
        ValuesMut { inner: self.items.iter_mut() }
    }
    pub fn into_values(self) -> IntoValues<K, V> {
        IntoValues { inner: self.items.into_iter() }
    }
}
pub struct ValuesMut<'a, K, V> {
    inner: core::slice::IterMut<'a, (K, V)>,
}
impl<'a, K, V> Iterator for ValuesMut<'a, K, V> {
    type Item = &'a mut V;
    fn next(&mut self) -> Option<&'a mut V> {
        match self.inner.next() {
            Some(kv) => Some(&mut kv.1),
            None => None,
        }
    }
}
pub struct IntoValues<K, V> {
    inner: std::vec::IntoIter<(K, V)>,
}
impl<K, V> Iterator for IntoValues<K, V> {
    type Item = V;
    fn next(&mut self) -> Option<V> {
        match self.inner.next() {
            Some(kv) => Some(kv.1),
            None => None,
        }
    }
}
pub mod btree_map {
    pub enum Entry<'a, K, V> {
        Occupied(OccupiedEntry<'a, K, V>),
        Vacant(VacantEntry<'a, K, V>),
    }
    pub struct OccupiedEntry<'a, K, V> {
        pub(super) items: &'a mut Vec<(K, V)>,
        pub(super) idx: usize,
    }
    pub struct VacantEntry<'a, K, V> {
        pub(super) items: &'a mut Vec<(K, V)>,
        pub(super) idx: usize,
        pub(super) key: K,
    }
    impl<'a, K, V> VacantEntry<'a, K, V> {
        pub fn insert(self, v: V) -> &'a mut V {
            self.items.push((self.key, v));
            let mut j = self.items.len() - 1;
            while j > self.idx {
                self.items.swap(j, j - 1);
                j -= 1;
            }
            &mut self.items[self.idx].1
        }
    }
    impl<'a, K, V> OccupiedEntry<'a, K, V> {
        pub fn get_mut(&mut self) -> &mut V {
            &mut self.items[self.idx].1
        }
    }
}

// =============================================================================================
/// sorted list without duplicates
pub struct BTreeSet<T> {
    pub items: Vec<T>,
}
impl<T: Ord> BTreeSet<T> {
    pub fn new() -> Self {
        BTreeSet { items: Vec::with_capacity(CAP0) }
    }
    pub fn len(&self) -> usize {
        self.items.len()
    }
    pub fn insert(&mut self, x: T) -> bool {
        let mut i = 0;
        while i < self.items.len() {
            match self.items[i].cmp(&x) {
                core::cmp::Ordering::Less => {}
                core::cmp::Ordering::Equal => return false,
                core::cmp::Ordering::Greater => break,
            }
            i += 1;
        }
        self.items.push(x);
        let mut j = self.items.len() - 1;
        while j > i {
            self.items.swap(j, j - 1);
            j -= 1;
        }
        true
    }
    pub fn contains(&self, x: &T) -> bool {
        let mut i = 0;
        while i < self.items.len() {
            if &self.items[i] == x {
                return true;
            }
            i += 1;
        }
        false
    }
    pub fn iter(&self) -> core::slice::Iter<'_, T> {
        self.items.iter()
    }
}
impl<'a, T: Ord> IntoIterator for &'a BTreeSet<T> {
    type Item = &'a T;
    type IntoIter = core::slice::Iter<'a, T>;
    fn into_iter(self) -> core::slice::Iter<'a, T> {
        self.items.iter()
    }
}
