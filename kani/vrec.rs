//! Byte-stream recorder for `fnv::FnvHasher` — `crate::__vrec`, cfg(kani) only.
//! Harnesses that carry
//!   #[kani::stub(<fnv::FnvHasher as std::hash::Hasher>::write, rec::rec_write)]
//!   #[kani::stub(<fnv::FnvHasher as std::hash::Hasher>::finish, rec::rec_finish)]
//! see exactly which bytes the code feeds to each hasher (one stream per `finish`).
//! Assumed contract of the hasher (A1): the 64-bit result is a function of the byte stream and
//! distinct streams do not collide.
#![allow(dead_code, unused, static_mut_refs)]

pub const CAP: usize = 40;
pub const NSTREAM: usize = 4;
static mut BUF: [[u8; CAP]; NSTREAM] = [[0; CAP]; NSTREAM];
static mut LEN: [usize; NSTREAM] = [0; NSTREAM];
static mut CUR: usize = 0;
static mut WRITES: usize = 0;

pub fn reset() {
    unsafe {
        LEN = [0; NSTREAM];
        CUR = 0;
        WRITES = 0;
    }
}
pub fn rec_write(_h: &mut fnv::FnvHasher, bytes: &[u8]) {
    unsafe {
        assert!(CUR < NSTREAM, "VERIF-REC: too many hash streams");
        let mut i = 0;
        while i < bytes.len() {
            assert!(LEN[CUR] < CAP, "VERIF-REC: stream buffer overflow");
            BUF[CUR][LEN[CUR]] = bytes[i];
            LEN[CUR] += 1;
            i += 1;
        }
        WRITES += 1;
    }
}
pub fn rec_finish(_h: &fnv::FnvHasher) -> u64 {
    unsafe {
        CUR += 1;
    }
    kani::any()
}
/// number of finished streams
pub fn streams() -> usize {
    unsafe { CUR }
}
pub fn writes() -> usize {
    unsafe { WRITES }
}
pub fn len(s: usize) -> usize {
    unsafe { LEN[s] }
}
pub fn byte(s: usize, i: usize) -> u8 {
    unsafe { BUF[s][i] }
}
/// copy of a finished stream (fixed capacity, no allocation)
pub fn snapshot(s: usize) -> ([u8; CAP], usize) {
    unsafe { (BUF[s], LEN[s]) }
}
/// the recorded stream `s`, from `*pos`, continues with the bytes of `piece` followed by the
/// separator 0xFF; advances `*pos`
pub fn expect_piece(s: usize, pos: &mut usize, piece: &[u8]) -> bool {
    unsafe {
        let mut i = 0;
        while i < piece.len() {
            if *pos >= LEN[s] || BUF[s][*pos] != piece[i] {
                return false;
            }
            *pos += 1;
            i += 1;
        }
        if *pos >= LEN[s] || BUF[s][*pos] != 0xFF {
            return false;
        }
        *pos += 1;
        true
    }
}
pub fn streams_equal(a: &([u8; CAP], usize), b: &([u8; CAP], usize)) -> bool {
    if a.1 != b.1 {
        return false;
    }
    let mut i = 0;
    while i < a.1 {
        if a.0[i] != b.0[i] {
            return false;
        }
        i += 1;
    }
    true
}
