//! Byte-stream recorder for `fnv::FnvHasher` — `crate::__vrec`, cfg(kani) only.
//! Harnesses that carry
//!   #[kani::stub(<fnv::FnvHasher as std::hash::Hasher>::write, rec::rec_write)]
//!   #[kani::stub(<fnv::FnvHasher as std::hash::Hasher>::finish, rec::rec_finish)]
//! see exactly which bytes the code feeds to each hasher (one stream per `finish`).
//! Assumed contract of the hasher (A1): the 64-bit result is a function of the byte stream and
//! distinct streams do not collide.
#![allow(dead_code, unused, static_mut_refs)]

pub const CAP: usize = 40;
pub const NSTREAM: usize = 4;

/// Recorder state.  It lives in the HARNESS's stack frame (`let mut r = Rec::new(); install(&mut r)`)
/// and is reached through one static raw pointer: keeping the byte buffers themselves in
/// `static mut` arrays made CBMC report spurious `__rust_dealloc` layout failures inside
/// Desc::new (measured; the same harness passes with the state in a local object).
pub struct Rec {
    buf: [u8; CAP * NSTREAM],
    len: [usize; NSTREAM],
    cur: usize,
    writes: usize,
}
impl Rec {
    pub fn new() -> Rec {
        Rec { buf: [0; CAP * NSTREAM], len: [0; NSTREAM], cur: 0, writes: 0 }
    }
}
static mut RECP: *mut Rec = core::ptr::null_mut();
pub fn install(r: &mut Rec) {
    unsafe { RECP = r as *mut Rec }
}
fn st() -> &'static mut Rec {
    unsafe {
        assert!(!RECP.is_null(), "VERIF-REC: recorder not installed");
        &mut *RECP
    }
}

pub fn rec_write(_h: &mut fnv::FnvHasher, bytes: &[u8]) {
    let r = st();
    assert!(r.cur < NSTREAM, "VERIF-REC: too many hash streams");
    let mut i = 0;
    while i < bytes.len() {
        assert!(r.len[r.cur] < CAP, "VERIF-REC: stream buffer overflow");
        r.buf[r.cur * CAP + r.len[r.cur]] = bytes[i];
        r.len[r.cur] += 1;
        i += 1;
    }
    r.writes += 1;
}
pub fn rec_finish(_h: &fnv::FnvHasher) -> u64 {
    st().cur += 1;
    kani::any()
}
/// number of finished streams
pub fn streams() -> usize {
    st().cur
}
pub fn writes() -> usize {
    st().writes
}
pub fn len(s: usize) -> usize {
    st().len[s]
}
pub fn byte(s: usize, i: usize) -> u8 {
    st().buf[s * CAP + i]
}
/// copy of a finished stream (fixed capacity, no allocation)
pub fn snapshot(s: usize) -> ([u8; CAP], usize) {
    let r = st();
    let mut out = [0u8; CAP];
    let mut i = 0;
    while i < CAP {
        out[i] = r.buf[s * CAP + i];
        i += 1;
    }
    (out, r.len[s])
}
/// the recorded stream `s`, from `*pos`, continues with the bytes of `piece` followed by the
/// separator 0xFF; advances `*pos`
pub fn expect_piece(s: usize, pos: &mut usize, piece: &[u8]) -> bool {
    let r = st();
    let mut i = 0;
    while i < piece.len() {
        if *pos >= r.len[s] || r.buf[s * CAP + *pos] != piece[i] {
            return false;
        }
        *pos += 1;
        i += 1;
    }
    if *pos >= r.len[s] || r.buf[s * CAP + *pos] != 0xFF {
        return false;
    }
    *pos += 1;
    true
}
/// finished streams `a` and `b` carry the same bytes
pub fn streams_equal(a: usize, b: usize) -> bool {
    let r = st();
    if r.len[a] != r.len[b] {
        return false;
    }
    let mut i = 0;
    while i < r.len[a] {
        if r.buf[a * CAP + i] != r.buf[b * CAP + i] {
            return false;
        }
        i += 1;
    }
    true
}
