//! C09 — `build_fq_name` join rule and `Opts::fq_name`.  Child module of src/metrics.rs.
//! std `format!` is replaced by its contract (a ++ "_" ++ b) at the three call sites, so what is
//! decided is WHICH components are joined in WHICH order.
#![allow(dead_code, unused)]
use super::*;
use crate::__vsup::*;

fn fq(ns: &str, sub: &str, name: &str, expect: &str) -> bool {
    let r = build_fq_name(ns, sub, name);
    let ok = r == expect;
    core::mem::forget(r);
    ok
}

//@ id: c09_build_fq_name_join_rule
//@ prop: C09
//@ tier: quick
//@ strength: bounded(enumerated: the 8 empty/non-empty combinations of namespace, subsystem, name with concrete components)
//@ fn: metrics::build_fq_name
//@ obligation: non-empty components are joined by "_" in the order namespace, subsystem, name; empty components are skipped; an empty name yields the empty string whatever the others are (so that Desc::new refuses it)
#[kani::proof]
#[kani::unwind(8)]
#[kani::stub(alloc::fmt::format, stub_format)]
fn c09_build_fq_name_join_rule() {
    assert!(fq("a", "b", "c", "a_b_c"), "C09.build_fq_name: namespace_subsystem_name");
    assert!(fq("", "b", "c", "b_c"), "C09.build_fq_name: empty namespace skipped");
    assert!(fq("a", "", "c", "a_c"), "C09.build_fq_name: empty subsystem skipped");
    assert!(fq("", "", "c", "c"), "C09.build_fq_name: name alone");
    assert!(fq("a", "b", "", ""), "C09.build_fq_name: empty name must give the empty string");
    assert!(fq("a", "", "", ""), "C09.build_fq_name: empty name must give the empty string");
    assert!(fq("", "b", "", ""), "C09.build_fq_name: empty name must give the empty string");
    assert!(fq("", "", "", ""), "C09.build_fq_name: all empty");
}
