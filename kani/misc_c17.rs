//! C17 — fallible APIs report bad input as Err and never panic (the obligations that are not
//! already part of another property's harnesses).  Child module of src/histogram.rs.
#![allow(dead_code, unused)]
use super::*;
use crate::__vsup::*;
use crate::counter::Counter;
use crate::registry::Registry;

/// HistogramOpts written out field by field (no builder chain, no DEFAULT_BUCKETS vector)
fn hopts(var_label: Option<&str>, const_label: Option<&str>, buckets: Vec<f64>) -> HistogramOpts {
    let mut consts: HashMap<String, String> = HashMap::new();
    if let Some(c) = const_label {
        consts.insert(c.to_owned(), "1".to_owned());
    }
    let mut vars: Vec<String> = Vec::with_capacity(1);
    if let Some(v) = var_label {
        vars.push(v.to_owned());
    }
    HistogramOpts {
        common_opts: Opts {
            namespace: String::new(),
            subsystem: String::new(),
            name: "m".to_owned(),
            help: "h".to_owned(),
            const_labels: consts,
            variable_labels: vars,
        },
        buckets,
    }
}

//@ id: c17_check_bucket_label_contract
//@ prop: C17, C09
//@ tier: quick
//@ strength: bounded(label names of <= 3 symbolic ASCII bytes), complete in byte values
//@ fn: histogram::check_bucket_label
//@ obligation: check_bucket_label(l) is Err exactly when l == "le"
#[kani::proof]
#[kani::unwind(6)]
#[kani::stub(alloc::fmt::format, stub_format)]
fn c17_check_bucket_label_contract() {
    let b: [u8; 3] = kani::any();
    let len: usize = kani::any();
    kani::assume(len <= 3 && b[0] < 0x80 && b[1] < 0x80 && b[2] < 0x80);
    let s = unsafe { core::str::from_utf8_unchecked(&b[..len]) };
    let r = check_bucket_label(s);
    let is_le = len == 2 && b[0] == b'l' && b[1] == b'e';
    assert!(r.is_err() == is_le, "C09.check_bucket_label: must refuse exactly the reserved name `le`");
    core::mem::forget(r);
}

// NOTE (measured): HistogramCore::new with a label (Opts::describe -> Desc::new -> make_label_pairs)
// does not finish under CBMC within 15 min, so the wiring "every variable label and every const
// pair goes through check_bucket_label" is NOT under a harness; the rule itself is
// c17_check_bucket_label_contract.

fn buckets_no_panic(linear: bool) {
    let a: f64 = kani::any();
    let b: f64 = kani::any();
    let count: usize = kani::any();
    kani::assume(count <= 3);
    let r = if linear { linear_buckets(a, b, count) } else { exponential_buckets(a, b, count) };
    match &r {
        Ok(v) => {
            assert!(count >= 1, "C17.buckets: count 0 must be refused");
            // documented refusal conditions (IEEE comparisons: a NaN parameter is neither <= 0 nor <= 1,
            // the documentation does not call it invalid, and the check must not demand more)
            if linear {
                assert!(!(b <= 0.0), "C17.linear_buckets: zero or negative width must be refused");
            } else {
                assert!(!(a <= 0.0) && !(b <= 1.0), "C17.exponential_buckets: start <= 0 or factor <= 1 must be refused");
            }
            assert!(v.len() == count, "C17.buckets: number of buckets");
            assert!(feq(v[0], a) || linear, "C17.exponential_buckets: first bound is start");
        }
        Err(_) => {
            if linear {
                assert!(count < 1 || b <= 0.0, "C17.linear_buckets: refused valid parameters");
            } else {
                assert!(count < 1 || a <= 0.0 || b <= 1.0, "C17.exponential_buckets: refused valid parameters");
            }
        }
    }
    core::mem::forget(r);
}

//@ id: c17_linear_buckets_no_panic
//@ prop: C17, C08
//@ tier: quick
//@ strength: bounded(count <= 3), complete in the f64 parameters (every bit pattern incl. NaN, infinities, negatives)
//@ fn: histogram::linear_buckets
//@ obligation: linear_buckets returns Ok (count bounds) exactly when count >= 1 and not (width <= 0), Err otherwise (the documented condition), and never panics
#[kani::proof]
#[kani::unwind(6)]
#[kani::stub(alloc::fmt::format, stub_format)]
fn c17_linear_buckets_no_panic() {
    buckets_no_panic(true);
}

//@ id: c17_exponential_buckets_no_panic
//@ prop: C17, C08
//@ tier: quick
//@ strength: bounded(count <= 3), complete in the f64 parameters
//@ fn: histogram::exponential_buckets
//@ obligation: exponential_buckets returns Ok (count bounds, first = start) exactly when count >= 1 and neither start <= 0 nor factor <= 1, Err otherwise (the documented condition), and never panics
#[kani::proof]
#[kani::unwind(6)]
#[kani::stub(alloc::fmt::format, stub_format)]
fn c17_exponential_buckets_no_panic() {
    buckets_no_panic(false);
}

//@ id: c17_histogram_new_bad_buckets
//@ prop: C17, C09
//@ tier: quick
//@ strength: bounded(enumerated: one concrete scenario -- decreasing bucket list, and a NaN bucket)
//@ fn: histogram::HistogramCore::new, histogram::check_bucket_label
//@ obligation: an invalid bucket list is refused with Err by the constructor (no panic)
#[kani::proof]
#[kani::unwind(6)]
#[kani::stub(alloc::fmt::format, stub_format)]
#[kani::stub(<[proto::LabelPair]>::sort, stub_sort)]
fn c17_histogram_new_bad_buckets() {
    let o = HistogramOpts::new("m", "h").buckets(vec![2.0, 1.0]);
    let r = HistogramCore::new(&o, &[] as &[&str]);
    assert!(r.is_err(), "C17: decreasing buckets accepted");
    let o2 = HistogramOpts::new("m", "h").buckets(vec![f64::NAN]);
    let r2 = HistogramCore::new(&o2, &[] as &[&str]);
    assert!(r2.is_err(), "C17: NaN bucket accepted");
    core::mem::forget((o, r, o2, r2));
}

//@ id: c17_histogram_new_valid_drops_inf
//@ prop: C17, C09
//@ tier: quick
//@ strength: bounded(enumerated: one concrete scenario -- valid buckets [1, +Inf])
//@ fn: histogram::HistogramCore::new, histogram::check_bucket_label
//@ obligation: a valid histogram is accepted and the trailing +Inf bound is dropped (one finite bucket per shard)
#[kani::proof]
#[kani::unwind(6)]
#[kani::stub(alloc::fmt::format, stub_format)]
#[kani::stub(<[proto::LabelPair]>::sort, stub_sort)]
fn c17_histogram_new_valid_drops_inf() {
    let o = HistogramOpts::new("m", "h").buckets(vec![1.0, f64::INFINITY]);
    let r = HistogramCore::new(&o, &[] as &[&str]);
    match &r {
        Ok(c) => assert!(c.upper_bounds.len() == 1 && c.shards[0].buckets.len() == 1 && c.shards[1].buckets.len() == 1, "C08: trailing +Inf bound not dropped"),
        Err(_) => assert!(false, "C17: valid histogram refused"),
    }
    core::mem::forget((o, r));
}

//@ id: c17_constructors_and_new_custom
//@ prop: C17
//@ tier: quick
//@ strength: bounded(enumerated concrete scenarios)
//@ fn: counter::GenericCounter::new, registry::Registry::new_custom, histogram::Histogram::with_opts
//@ obligation: Counter::new with an invalid name or an empty help returns Err, with valid arguments Ok; Registry::new_custom refuses an empty prefix and accepts a non-empty one; none of them panics
#[kani::proof]
#[kani::unwind(8)]
#[kani::stub(alloc::fmt::format, stub_format)]
#[kani::stub(<[proto::LabelPair]>::sort, stub_sort)]
fn c17_constructors_and_new_custom() {
    let which: u8 = kani::any();
    match which % 5 {
        0 => {
            let r = Counter::new("1bad", "h");
            assert!(r.is_err(), "C17: invalid metric name accepted");
            core::mem::forget(r);
        }
        1 => {
            let r = Counter::new("ok", "");
            assert!(r.is_err(), "C17: empty help accepted");
            core::mem::forget(r);
        }
        2 => {
            let r = Counter::new("ok", "h");
            assert!(r.is_ok(), "C17: valid counter refused");
            core::mem::forget(r);
        }
        3 => {
            let r = Registry::new_custom(Some(String::new()), None);
            assert!(r.is_err(), "C17: empty registry prefix accepted");
            core::mem::forget(r);
        }
        _ => {
            let r = Registry::new_custom(Some("p".to_owned()), None);
            assert!(r.is_ok(), "C17: valid registry prefix refused");
            core::mem::forget(r);
        }
    }
}
