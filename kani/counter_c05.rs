//! C05 — children built by the real counter builder start from zero and carry the requested label
//! values.  Child module of src/counter.rs (collections shim, sort/format contracts).
#![allow(dead_code, unused)]
use super::*;
use crate::__vsup::*;

//@ id: c05_counter_child_starts_from_zero
//@ prop: C05
//@ tier: quick
//@ strength: bounded(enumerated: one concrete vector child -- one variable label, value "v")
//@ fn: counter::CounterVecBuilder::build, counter::GenericCounter::with_opts_and_label_values, value::Value::new
//@ obligation: the child the real builder creates for label values [v] starts from zero and exposes exactly the declared label name with that value; a wrong number of values gives Err
#[kani::proof]
#[kani::unwind(6)]
#[kani::stub(<[proto::LabelPair]>::sort, stub_sort)]
#[kani::stub(alloc::fmt::format, stub_format)]
fn c05_counter_child_starts_from_zero() {
    let mut vars = Vec::with_capacity(1);
    vars.push("b".to_owned());
    let opts = Opts {
        namespace: String::new(),
        subsystem: String::new(),
        name: "m".to_owned(),
        help: "h".to_owned(),
        const_labels: HashMap::new(),
        variable_labels: vars,
    };
    let b = CounterVecBuilder::<AtomicU64>::new();
    let r = b.build(&opts, &["v"]);
    match &r {
        Ok(c) => {
            assert!(c.get() == 0, "C05: a new vector child does not start from zero");
            let lp = &c.v.label_pairs;
            assert!(lp.len() == 1 && lp[0].name() == "b" && lp[0].value() == "v", "C05: the child does not expose exactly the requested value under the declared label name");
        }
        Err(_) => assert!(false, "C05: builder refused matching label values"),
    }
    let r2 = b.build(&opts, &[] as &[&str]);
    assert!(r2.is_err(), "C05/C17: builder accepted the wrong number of label values");
    core::mem::forget((opts, r, r2));
}
