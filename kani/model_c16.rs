//! C16 — accessor algebra of the exposition data model.  The SAME harness text is compiled and
//! proved twice: against src/plain_model.rs (--no-default-features) and against
//! proto/proto_model.rs + src/proto_ext.rs (default features).  Crate-level module.
//!
//! All feature-independent code (value.rs, histogram.rs, vec.rs, registry.rs, encoder/text.rs ...)
//! talks to the data model only through these accessors (checked mechanically by
//! tools/c16_closure.py: every model method called from cfg-independent source is listed in
//! CONTRACTED below).  Same algebra + same client text => same gather() structure and same text
//! bytes in both configurations.
//!
//! CONTRACTED: set_name name get_name clear_name set_value value get_value set_help help get_help
//! CONTRACTED: set_field_type get_field_type set_metric get_metric mut_metric take_metric
//! CONTRACTED: from_label from_gauge set_label get_label take_label set_gauge get_gauge set_counter get_counter
//! CONTRACTED: set_summary get_summary set_histogram get_histogram set_timestamp_ms timestamp_ms get_timestamp_ms
//! CONTRACTED: set_sample_count get_sample_count sample_count set_sample_sum get_sample_sum sample_sum
//! CONTRACTED: set_quantile get_quantile quantile set_bucket get_bucket set_cumulative_count cumulative_count
//! CONTRACTED: get_cumulative_count set_upper_bound upper_bound get_upper_bound default cmp clone
#![allow(dead_code, unused, deprecated)]
use crate::__vsup::*;
use crate::proto::{Bucket, Counter, Gauge, Histogram, LabelPair, Metric, MetricFamily, MetricType, Quantile, Summary};
#[cfg(feature = "protobuf")]
use crate::proto_ext::MessageFieldExt;

fn any_type() -> MetricType {
    let k: u8 = kani::any();
    match k % 5 {
        0 => MetricType::COUNTER,
        1 => MetricType::GAUGE,
        2 => MetricType::SUMMARY,
        3 => MetricType::UNTYPED,
        _ => MetricType::HISTOGRAM,
    }
}

//@ id: c16_scalar_messages
//@ prop: C16
//@ tier: quick
//@ features: both
//@ strength: complete (every f64 / u64 / i64 value)
//@ fn: proto::Counter, proto::Gauge, proto::Quantile, proto::Bucket, proto::Summary, proto::Histogram
//@ obligation: defaults are zero; set_f(v) then f() returns v bit-exactly; setting one field leaves the others unchanged (Counter, Gauge, Quantile, Bucket, Summary and Histogram scalar fields)
#[kani::proof]
#[kani::unwind(3)]
fn c16_scalar_messages() {
    let v: f64 = kani::any();
    let w: f64 = kani::any();
    let n: u64 = kani::any();
    // Counter / Gauge are read by the clients only through Metric::get_counter()/get_gauge()
    let mut c = Counter::default();
    c.set_value(v);
    let mut mc = Metric::default();
    mc.set_counter(c);
    assert!(mc.get_counter().get_value().to_bits() == v.to_bits(), "C16: Counter set/get");
    let mut g = Gauge::default();
    g.set_value(v);
    let mg = Metric::from_gauge(g);
    assert!(mg.get_gauge().get_value().to_bits() == v.to_bits(), "C16: Gauge set/get");
    let mut q = Quantile::default();
    assert!(q.quantile().to_bits() == 0 && q.value().to_bits() == 0, "C16: Quantile defaults");
    q.set_quantile(v);
    assert!(q.quantile().to_bits() == v.to_bits() && q.value().to_bits() == 0, "C16: Quantile.quantile set/get/frame");
    q.set_value(w);
    assert!(q.value().to_bits() == w.to_bits() && q.quantile().to_bits() == v.to_bits(), "C16: Quantile.value set/get/frame");
    let mut b = Bucket::default();
    assert!(b.cumulative_count() == 0 && b.upper_bound().to_bits() == 0, "C16: Bucket defaults");
    b.set_cumulative_count(n);
    b.set_upper_bound(v);
    assert!(b.cumulative_count() == n && b.upper_bound().to_bits() == v.to_bits(), "C16: Bucket set/get");
    let mut s = Summary::default();
    assert!(s.sample_count() == 0 && s.sample_sum().to_bits() == 0 && s.get_quantile().len() == 0, "C16: Summary defaults");
    s.set_sample_count(n);
    s.set_sample_sum(v);
    assert!(s.sample_count() == n && s.sample_sum().to_bits() == v.to_bits(), "C16: Summary set/get");
    let mut h = Histogram::default();
    assert!(h.get_sample_count() == 0 && h.get_sample_sum().to_bits() == 0 && h.get_bucket().len() == 0, "C16: Histogram defaults");
    h.set_sample_count(n);
    h.set_sample_sum(v);
    assert!(h.get_sample_count() == n && h.get_sample_sum().to_bits() == v.to_bits(), "C16: Histogram set/get");
    h.set_bucket(vec![b.clone()]);
    assert!(h.get_bucket().len() == 1 && h.get_bucket()[0].cumulative_count() == n && h.get_bucket()[0].upper_bound().to_bits() == v.to_bits(), "C16: Histogram bucket list");
    assert!(h.get_sample_count() == n, "C16: Histogram frame");
    s.set_quantile(vec![q.clone()]);
    assert!(s.get_quantile().len() == 1 && s.get_quantile()[0].value().to_bits() == w.to_bits(), "C16: Summary quantile list");
    // setters of repeated fields REPLACE the previous list (a collector that refreshes a kept
    // Summary / Histogram on every scrape must not accumulate stale entries)
    let mut q2 = Quantile::default();
    q2.set_quantile(w);
    s.set_quantile(vec![q2.clone(), q2]);
    assert!(s.get_quantile().len() == 2 && s.get_quantile()[0].quantile().to_bits() == w.to_bits(), "C16: Summary.set_quantile must replace the list, not append to it");
    h.set_bucket(vec![b.clone(), b.clone()]);
    assert!(h.get_bucket().len() == 2, "C16: Histogram.set_bucket must replace the list, not append to it");
    core::mem::forget((mc, mg, q, b, s, h));
}

//@ id: c16_metric_message
//@ prop: C16, C14
//@ tier: quick
//@ features: both
//@ strength: complete in scalar values; label list of one pair with concrete strings
//@ fn: proto::Metric
//@ obligation: Metric defaults (no labels, timestamp 0, every typed payload reads as its zero default); set_counter / set_gauge / set_histogram / set_summary store the payload and leave the other payloads at their defaults (so a value read through the WRONG type accessor is the zero default, never another sample's value); set_timestamp_ms; from_label / from_gauge; set_label / get_label / take_label (take empties)
#[kani::proof]
#[kani::unwind(4)]
fn c16_metric_message() {
    let v: f64 = kani::any();
    let t: i64 = kani::any();
    let n: u64 = kani::any();
    let mut m = Metric::default();
    assert!(m.get_label().len() == 0 && m.timestamp_ms() == 0, "C16: Metric defaults");
    assert!(m.get_counter().get_value().to_bits() == 0 && m.get_gauge().get_value().to_bits() == 0, "C16: Metric payload defaults");
    assert!(m.get_histogram().get_sample_count() == 0 && m.get_histogram().get_bucket().len() == 0, "C16: Metric histogram default");
    assert!(m.get_summary().sample_count() == 0 && m.get_summary().get_quantile().len() == 0, "C16: Metric summary default");
    let which: u8 = kani::any();
    match which % 4 {
        0 => {
            let mut c = Counter::default();
            c.set_value(v);
            m.set_counter(c);
            assert!(m.get_counter().get_value().to_bits() == v.to_bits(), "C16: Metric.set_counter/get_counter");
            assert!(m.get_gauge().get_value().to_bits() == 0 && m.get_histogram().get_sample_count() == 0 && m.get_summary().sample_count() == 0, "C16: set_counter changed another payload");
        }
        1 => {
            let mut g = Gauge::default();
            g.set_value(v);
            m.set_gauge(g);
            assert!(m.get_gauge().get_value().to_bits() == v.to_bits(), "C16: Metric.set_gauge/get_gauge");
            assert!(m.get_counter().get_value().to_bits() == 0 && m.get_histogram().get_sample_count() == 0, "C16: set_gauge changed another payload");
        }
        2 => {
            let mut h = Histogram::default();
            h.set_sample_count(n);
            h.set_sample_sum(v);
            m.set_histogram(h);
            assert!(m.get_histogram().get_sample_count() == n && m.get_histogram().get_sample_sum().to_bits() == v.to_bits(), "C16: Metric.set_histogram/get_histogram");
            assert!(m.get_counter().get_value().to_bits() == 0 && m.get_gauge().get_value().to_bits() == 0, "C16: set_histogram changed another payload");
        }
        _ => {
            let mut s = Summary::default();
            s.set_sample_count(n);
            m.set_summary(s);
            assert!(m.get_summary().sample_count() == n, "C16: Metric.set_summary/get_summary");
            assert!(m.get_counter().get_value().to_bits() == 0, "C16: set_summary changed another payload");
        }
    }
    m.set_timestamp_ms(t);
    assert!(m.timestamp_ms() == t && m.get_timestamp_ms() == t, "C16: Metric timestamp set/get");
    let mut lp = LabelPair::default();
    lp.set_name("ab".to_owned());
    lp.set_value("c".to_owned());
    m.set_label(vec![lp.clone()]);
    assert!(m.get_label().len() == 1 && m.get_label()[0].name() == "ab" && m.get_label()[0].value() == "c", "C16: Metric label set/get");
    let mut lp2 = LabelPair::default();
    lp2.set_name("zz".to_owned());
    m.set_label(vec![lp2]);
    assert!(m.get_label().len() == 1 && m.get_label()[0].name() == "zz", "C16: Metric.set_label must replace the list, not append to it");
    let taken = m.take_label();
    assert!(taken.len() == 1 && m.get_label().len() == 0, "C16: take_label must return the labels and leave none");
    assert!(m.timestamp_ms() == t, "C16: take_label frame");
    let f = Metric::from_label(vec![lp]);
    assert!(f.get_label().len() == 1 && f.timestamp_ms() == 0 && f.get_counter().get_value().to_bits() == 0, "C16: Metric::from_label");
    let mut g = Gauge::default();
    g.set_value(v);
    let f2 = Metric::from_gauge(g);
    assert!(f2.get_gauge().get_value().to_bits() == v.to_bits() && f2.get_label().len() == 0, "C16: Metric::from_gauge");
    // (no destructors: dropping the protobuf model's UnknownFields runs hashbrown's SIMD scan)
    core::mem::forget((m, taken, f, f2));
}

//@ id: c16_label_pair_and_family
//@ prop: C16
//@ tier: quick
//@ features: both
//@ strength: bounded(strings: one symbolic ASCII string of <= 2 bytes plus concrete ones), every MetricType
//@ fn: proto::LabelPair, proto::MetricFamily, metrics::LabelPair::cmp
//@ obligation: LabelPair defaults are empty strings, set_name/set_value store and frame, ordering compares names only; MetricFamily defaults (empty name/help, type COUNTER, no metrics), set_name/set_help/set_field_type/set_metric store and frame, clear_name empties the name, mut_metric pushes, take_metric returns the metrics and leaves none
#[kani::proof]
#[kani::unwind(5)]
fn c16_label_pair_and_family() {
    let s = any_ascii_string::<2>();
    let mut lp = LabelPair::default();
    assert!(lp.name() == "" && lp.value() == "", "C16: LabelPair defaults");
    lp.set_name(s.clone());
    assert!(lp.name() == s.as_str() && lp.get_name() == s.as_str() && lp.value() == "", "C16: LabelPair.name set/get/frame");
    lp.set_value("v".to_owned());
    assert!(lp.value() == "v" && lp.get_value() == "v" && lp.name() == s.as_str(), "C16: LabelPair.value set/get/frame");
    let mut a = LabelPair::default();
    a.set_name("a".to_owned());
    a.set_value("zzz".to_owned());
    let mut b = LabelPair::default();
    b.set_name("b".to_owned());
    b.set_value("aaa".to_owned());
    assert!(a < b && a.cmp(&b) == core::cmp::Ordering::Less && b.cmp(&a) == core::cmp::Ordering::Greater, "C16: LabelPair ordering is by name");
    let mut a2 = LabelPair::default();
    a2.set_name("a".to_owned());
    assert!(a.cmp(&a2) == core::cmp::Ordering::Equal, "C16: LabelPair ordering ignores the value");

    let mut mf = MetricFamily::default();
    assert!(mf.name() == "" && mf.help() == "" && mf.get_metric().len() == 0, "C16: MetricFamily defaults");
    assert!(mf.get_field_type() == MetricType::COUNTER, "C16: MetricFamily default type");
    let t = any_type();
    mf.set_field_type(t);
    assert!(mf.get_field_type() == t, "C16: MetricFamily type set/get");
    mf.set_name(s.clone());
    mf.set_help("h".to_owned());
    assert!(mf.name() == s.as_str() && mf.get_name() == s.as_str() && mf.help() == "h" && mf.get_help() == "h" && mf.get_field_type() == t, "C16: MetricFamily name/help set/get/frame");
    let mut m = Metric::default();
    m.set_timestamp_ms(7);
    mf.set_metric(vec![m.clone()]);
    assert!(mf.get_metric().len() == 1 && mf.get_metric()[0].timestamp_ms() == 7, "C16: MetricFamily metric list");
    mf.set_metric(vec![m.clone()]);
    assert!(mf.get_metric().len() == 1, "C16: MetricFamily.set_metric must replace the list, not append to it");
    mf.mut_metric().push(m);
    assert!(mf.get_metric().len() == 2, "C16: mut_metric push");
    let taken = mf.take_metric();
    assert!(taken.len() == 2 && mf.get_metric().len() == 0 && mf.name() == s.as_str(), "C16: take_metric must return the metrics and leave none");
    mf.clear_name();
    assert!(mf.name() == "" && mf.help() == "h", "C16: clear_name");
    core::mem::forget((mf, taken, lp, a, b, a2));
}
