//! C18 — timers record once or never.  Child module of src/histogram.rs.
//! Clock: `std::time::Instant::now` and `Instant::saturating_duration_since` are stubbed by their
//! std contract (now: some instant; saturating_duration_since: SOME `Duration`, i.e. any
//! non-negative span).  Real atomics, sequential.
#![allow(dead_code, unused)]
use super::__v_hist_c08::mk_core;
use super::*;
use crate::__vsup::*;

pub(crate) fn stub_now() -> StdInstant {
    // all-zero is a valid Instant on this target (tv_sec: i64 = 0, tv_nsec = 0)
    unsafe { core::mem::zeroed() }
}
pub(crate) fn stub_saturating_duration_since(_this: &StdInstant, _earlier: StdInstant) -> Duration {
    let s: u64 = kani::any();
    let n: u32 = kani::any();
    kani::assume(n < 1_000_000_000);
    Duration::new(s, n)
}

fn shared_count(h: &Histogram) -> u64 {
    h.get_sample_count()
}

//@ id: c18_shared_timer
//@ prop: C18
//@ tier: quick
//@ strength: complete modulo the clock contract (every Duration the clock may return; every way of ending the timer)
//@ fn: histogram::HistogramTimer::new, histogram::HistogramTimer::observe_duration, histogram::HistogramTimer::stop_and_record, histogram::HistogramTimer::stop_and_discard, histogram::HistogramTimer::observe, histogram::HistogramTimer::drop, histogram::Histogram::start_timer, histogram::Instant::elapsed, histogram::Instant::elapsed_sec
//@ obligation: a shared timer ended by observe_duration / stop_and_record / plain drop adds exactly ONE observation, by stop_and_discard NONE; the recorded value is >= 0 seconds and equals the returned one
#[kani::proof]
#[kani::unwind(3)]
#[kani::stub(std::time::Instant::now, stub_now)]
#[kani::stub(std::time::Instant::saturating_duration_since, stub_saturating_duration_since)]
fn c18_shared_timer() {
    let h = Histogram { core: Arc::new(mk_core(Vec::new())) };
    let t = h.start_timer();
    assert!(shared_count(&h) == 0, "C18: starting a timer recorded something");
    let which: u8 = kani::any();
    match which {
        0 => {
            t.observe_duration();
            assert!(shared_count(&h) == 1, "C18.observe_duration: not exactly one observation");
        }
        1 => {
            let v = t.stop_and_record();
            assert!(v >= 0.0, "C18.stop_and_record: negative duration");
            assert!(shared_count(&h) == 1, "C18.stop_and_record: not exactly one observation");
            assert!(feq(h.get_sample_sum(), 0.0 + v), "C18.stop_and_record: recorded value differs from the returned one");
        }
        2 => {
            let v = t.stop_and_discard();
            assert!(v >= 0.0, "C18.stop_and_discard: negative duration");
            assert!(shared_count(&h) == 0, "C18.stop_and_discard: an observation was recorded");
        }
        _ => {
            drop(t);
            assert!(shared_count(&h) == 1, "C18.drop: a dropped timer did not record exactly one observation");
        }
    }
    assert!(h.get_sample_sum() >= 0.0, "C18: recorded a negative number of seconds");
}

//@ id: c18_local_timer
//@ prop: C18, C12
//@ tier: quick
//@ strength: complete modulo the clock contract
//@ fn: histogram::LocalHistogramTimer::new, histogram::LocalHistogramTimer::observe_duration, histogram::LocalHistogramTimer::stop_and_record, histogram::LocalHistogramTimer::stop_and_discard, histogram::LocalHistogramTimer::observe, histogram::LocalHistogramTimer::drop, histogram::LocalHistogram::start_timer
//@ obligation: a local timer ended by observe_duration / stop_and_record / plain drop delivers exactly ONE observation (>= 0 s) to the shared histogram once the timer is gone -- also when the originating local histogram was flushed or cleared in between -- and NONE after stop_and_discard; the originating local histogram's own pending data is untouched
#[kani::proof]
#[kani::unwind(3)]
#[kani::stub(std::time::Instant::now, stub_now)]
#[kani::stub(std::time::Instant::saturating_duration_since, stub_saturating_duration_since)]
fn c18_local_timer() {
    let h = Histogram { core: Arc::new(mk_core(Vec::new())) };
    let local = h.local();
    let pending: bool = kani::any();
    if pending {
        local.observe(1.0);
    }
    let t = local.start_timer();
    let between: u8 = kani::any();
    let mut shared_before = 0;
    if between == 1 {
        local.flush();
        shared_before = if pending { 1 } else { 0 };
    } else if between == 2 {
        local.clear();
    }
    let local_pending = local.get_sample_count();
    let which: u8 = kani::any();
    let expect = match which {
        0 => {
            t.observe_duration();
            1
        }
        1 => {
            let v = t.stop_and_record();
            assert!(v >= 0.0, "C18.local.stop_and_record: negative duration");
            1
        }
        2 => {
            let v = t.stop_and_discard();
            assert!(v >= 0.0, "C18.local.stop_and_discard: negative duration");
            0
        }
        _ => {
            drop(t);
            1
        }
    };
    assert!(shared_count(&h) == shared_before + expect, "C18.local: the shared histogram did not receive exactly one observation (none when discarded) when the timer ended");
    assert!(local.get_sample_count() == local_pending, "C18.local: the timer changed the originating local histogram's pending data");
    assert!(h.get_sample_sum() >= 0.0, "C18.local: recorded a negative number of seconds");
    core::mem::forget(local);
}

//@ id: c18_closure_duration
//@ prop: C18
//@ tier: quick
//@ strength: complete modulo the clock contract
//@ fn: histogram::Histogram::observe_closure_duration, histogram::LocalHistogram::observe_closure_duration
//@ obligation: observe_closure_duration returns the closure's result and contributes exactly one observation of >= 0 seconds (shared: to the histogram; local: to the local pending data)
#[kani::proof]
#[kani::unwind(3)]
#[kani::stub(std::time::Instant::now, stub_now)]
#[kani::stub(std::time::Instant::saturating_duration_since, stub_saturating_duration_since)]
fn c18_closure_duration() {
    let h = Histogram { core: Arc::new(mk_core(Vec::new())) };
    let x: u32 = kani::any();
    let r = h.observe_closure_duration(|| x);
    assert!(r == x, "C18.closure: result of the closure not returned");
    assert!(shared_count(&h) == 1 && h.get_sample_sum() >= 0.0, "C18.closure: not exactly one non-negative observation");
    let local = h.local();
    let r = local.observe_closure_duration(|| x);
    assert!(r == x, "C18.local closure: result of the closure not returned");
    assert!(local.get_sample_count() == 1 && local.get_sample_sum() >= 0.0, "C18.local closure: not exactly one non-negative local observation");
    assert!(shared_count(&h) == 1, "C18.local closure: reached the shared histogram before flush");
    core::mem::forget(local);
}
