//! C01 / C12 — GenericCounter and GenericLocalCounter.  Child module of src/counter.rs.
#![allow(dead_code, unused)]
use super::*;
use crate::__venv as env;
use crate::__vsup::*;

pub(crate) fn mk_counter<P: Atomic>(init: P::T) -> GenericCounter<P> {
    GenericCounter { v: Arc::new(mk_value::<P>(init, ValueType::Counter)) }
}

//@ id: c01_counter_f64_wrappers
//@ prop: C01
//@ tier: quick
//@ strength: complete in values and interference (callee AtomicF64::inc_by replaced by its proved contract)
//@ fn: counter::GenericCounter::inc, counter::GenericCounter::inc_by, counter::GenericCounter::get, counter::GenericCounter::reset, value::Value::inc, value::Value::inc_by, value::Value::get, value::Value::set
//@ obligation: Counter::inc is exactly one atomic add of 1.0 on the counter's cell, inc_by(v) exactly one atomic add of v, get exactly one load whose value is returned, reset exactly one store of 0.0; the Value/GenericCounter layers add no other atomic step
#[kani::proof]
#[kani::unwind(6)]
#[kani::stub(std::sync::atomic::Atomic::<u64>::load, env::env_load)]
#[kani::stub(std::sync::atomic::Atomic::<u64>::compare_exchange_weak, env::env_cas_weak)]
#[kani::stub(std::sync::atomic::Atomic::<u64>::store, env::env_store)]
#[kani::stub(std::sync::atomic::Atomic::<u64>::fetch_add, env::env_fetch_add)]
#[kani::stub(std::sync::atomic::Atomic::<u64>::fetch_sub, env::env_fetch_sub)]
#[kani::stub(std::sync::atomic::Atomic::<u64>::swap, env::env_swap)]
#[kani::stub(<crate::atomic64::AtomicF64 as crate::atomic64::Atomic>::inc_by, env::contract_f64_inc_by)]
fn c01_counter_f64_wrappers() {
    env::reset(1);
    let c: Counter = mk_counter::<AtomicF64>(kani::any());
    let cell = addr_of(&c.v.val);
    let which: u8 = kani::any();
    match which {
        0 => {
            c.inc();
            assert!(env::is_single_f64_add(0, cell, 1.0), "C01.Counter.inc: not exactly one atomic add of 1.0 on the counter's cell");
        }
        1 => {
            let v: f64 = kani::any();
            kani::assume(v >= 0.0); // documented precondition (debug_assert)
            c.inc_by(v);
            assert!(env::is_single_f64_add(0, cell, v), "C01.Counter.inc_by: not exactly one atomic add of v on the counter's cell");
        }
        2 => {
            let g = c.get();
            assert!(env::n() == 1 && env::ev(0).kind == env::LOAD && env::ev(0).cell == cell, "C01.Counter.get: not exactly one load of the cell");
            assert!(g.to_bits() == env::ev(0).ret, "C01.Counter.get: returned value is not the loaded one");
        }
        _ => {
            c.reset();
            assert!(env::n() == 1 && env::ev(0).kind == env::STORE && env::ev(0).cell == cell && env::ev(0).a == 0f64.to_bits(), "C01.Counter.reset: not exactly one store of 0.0");
        }
    }
}

//@ id: c01_counter_u64_wrappers
//@ prop: C01
//@ tier: quick
//@ strength: complete in values and interference
//@ fn: counter::GenericCounter::inc, counter::GenericCounter::inc_by, counter::GenericCounter::get, counter::GenericCounter::reset
//@ obligation: IntCounter::inc is exactly one fetch_add(1), inc_by(v) exactly one fetch_add(v), get exactly one load whose value is returned, reset exactly one store of 0
#[kani::proof]
#[kani::unwind(6)]
#[kani::stub(std::sync::atomic::Atomic::<u64>::load, env::env_load)]
#[kani::stub(std::sync::atomic::Atomic::<u64>::compare_exchange_weak, env::env_cas_weak)]
#[kani::stub(std::sync::atomic::Atomic::<u64>::store, env::env_store)]
#[kani::stub(std::sync::atomic::Atomic::<u64>::fetch_add, env::env_fetch_add)]
#[kani::stub(std::sync::atomic::Atomic::<u64>::fetch_sub, env::env_fetch_sub)]
#[kani::stub(std::sync::atomic::Atomic::<u64>::swap, env::env_swap)]
fn c01_counter_u64_wrappers() {
    env::reset(0);
    let c: IntCounter = mk_counter::<AtomicU64>(kani::any());
    let cell = addr_of(&c.v.val);
    let which: u8 = kani::any();
    match which {
        0 => {
            c.inc();
            assert!(env::n() == 1 && env::ev(0).kind == env::FADD && env::ev(0).cell == cell && env::ev(0).a == 1, "C01.IntCounter.inc: not exactly one fetch_add(1)");
        }
        1 => {
            let v: u64 = kani::any();
            c.inc_by(v);
            assert!(env::n() == 1 && env::ev(0).kind == env::FADD && env::ev(0).cell == cell && env::ev(0).a == v, "C01.IntCounter.inc_by: not exactly one fetch_add(v)");
        }
        2 => {
            let g = c.get();
            assert!(env::n() == 1 && env::ev(0).kind == env::LOAD && env::ev(0).cell == cell && env::ev(0).ret == g, "C01.IntCounter.get: not exactly one load whose value is returned");
        }
        _ => {
            c.reset();
            assert!(env::n() == 1 && env::ev(0).kind == env::STORE && env::ev(0).cell == cell && env::ev(0).a == 0, "C01.IntCounter.reset: not exactly one store of 0");
        }
    }
}

//@ id: c01_local_counter_f64_flush_step
//@ prop: C01, C12
//@ tier: quick
//@ strength: complete in values and interference (callee AtomicF64::inc_by replaced by its proved contract)
//@ fn: counter::GenericLocalCounter::flush, counter::GenericLocalCounter::inc_by, counter::GenericLocalCounter::inc, counter::GenericLocalCounter::get, counter::GenericLocalCounter::reset
//@ obligation: local updates perform no atomic step; flush performs the shared counter's atomic add of the pending amount exactly once iff pending != 0 and leaves pending = 0; a second flush is event-free
#[kani::proof]
#[kani::unwind(6)]
#[kani::stub(std::sync::atomic::Atomic::<u64>::load, env::env_load)]
#[kani::stub(std::sync::atomic::Atomic::<u64>::compare_exchange_weak, env::env_cas_weak)]
#[kani::stub(std::sync::atomic::Atomic::<u64>::store, env::env_store)]
#[kani::stub(std::sync::atomic::Atomic::<u64>::fetch_add, env::env_fetch_add)]
#[kani::stub(std::sync::atomic::Atomic::<u64>::fetch_sub, env::env_fetch_sub)]
#[kani::stub(std::sync::atomic::Atomic::<u64>::swap, env::env_swap)]
#[kani::stub(<crate::atomic64::AtomicF64 as crate::atomic64::Atomic>::inc_by, env::contract_f64_inc_by)]
fn c01_local_counter_f64_flush_step() {
    env::reset(1);
    let c: Counter = mk_counter::<AtomicF64>(kani::any());
    let cell = addr_of(&c.v.val);
    let pending: f64 = kani::any();
    kani::assume(pending >= 0.0); // reachable local states: sums of non-negative increments
    let l = GenericLocalCounter { counter: c.clone(), val: RefCell::new(pending) };
    let v: f64 = kani::any();
    kani::assume(v >= 0.0);
    l.inc_by(v);
    l.inc();
    let p2 = l.get();
    assert!(env::n() == 0, "C12.LocalCounter: a local update performed an atomic step on the shared counter");
    // (the arithmetic of pending is the sequential ledger obligation c12_local_counter_ledger_sequential)
    if p2 == 0.0 {
        l.flush();
        assert!(env::n() == 0, "C12.LocalCounter.flush: event although nothing was pending");
    } else {
        l.flush();
        assert!(env::is_single_f64_add(0, cell, p2), "C12.LocalCounter.flush: not exactly one atomic add of the pending amount");
    }
    assert!(l.get() == 0.0, "C12.LocalCounter.flush: pending not cleared");
    let n1 = env::n();
    l.flush();
    assert!(env::n() == n1, "C12.LocalCounter: second flush adds something");
}

//@ id: c01_local_counter_u64_flush_step
//@ prop: C01, C12
//@ tier: quick
//@ strength: complete in values and interference
//@ fn: counter::GenericLocalCounter::flush, counter::GenericLocalCounter::inc_by, counter::GenericLocalCounter::inc, counter::GenericLocalCounter::get, counter::GenericLocalCounter::reset, counter::GenericLocalCounter::clone
//@ obligation: local updates perform no atomic step; flush performs exactly one fetch_add(pending) iff pending != 0 and leaves pending = 0; second flush event-free; reset discards pending without an event; a clone starts at 0 and targets the same shared counter
#[kani::proof]
#[kani::unwind(6)]
#[kani::stub(std::sync::atomic::Atomic::<u64>::load, env::env_load)]
#[kani::stub(std::sync::atomic::Atomic::<u64>::compare_exchange_weak, env::env_cas_weak)]
#[kani::stub(std::sync::atomic::Atomic::<u64>::store, env::env_store)]
#[kani::stub(std::sync::atomic::Atomic::<u64>::fetch_add, env::env_fetch_add)]
#[kani::stub(std::sync::atomic::Atomic::<u64>::fetch_sub, env::env_fetch_sub)]
#[kani::stub(std::sync::atomic::Atomic::<u64>::swap, env::env_swap)]
fn c01_local_counter_u64_flush_step() {
    env::reset(0);
    let c: IntCounter = mk_counter::<AtomicU64>(kani::any());
    let cell = addr_of(&c.v.val);
    let pending: u64 = kani::any();
    let v: u64 = kani::any();
    kani::assume(pending < (1 << 62) && v < (1 << 62));
    let l = GenericLocalCounter { counter: c.clone(), val: RefCell::new(pending) };
    l.inc_by(v);
    l.inc();
    let p2 = l.get();
    assert!(env::n() == 0, "C12.LocalIntCounter: a local update performed an atomic step");
    assert!(p2 == pending + v + 1, "C12.LocalIntCounter: pending is not previous + increments");
    let k = l.clone();
    assert!(k.get() == 0, "C12.LocalIntCounter.clone: clone does not start empty");
    assert!(Arc::ptr_eq(&k.counter.v, &c.v), "C12.LocalIntCounter.clone: clone targets another counter");
    let do_reset: bool = kani::any();
    if do_reset {
        l.reset();
        assert!(env::n() == 0 && l.get() == 0, "C12.LocalIntCounter.reset: not a pure local discard");
    }
    let p3 = l.get();
    l.flush();
    if p3 == 0 {
        assert!(env::n() == 0, "C12.LocalIntCounter.flush: event although nothing was pending");
    } else {
        assert!(env::n() == 1 && env::ev(0).kind == env::FADD && env::ev(0).cell == cell && env::ev(0).a == p3, "C12.LocalIntCounter.flush: not exactly one fetch_add(pending)");
    }
    assert!(l.get() == 0, "C12.LocalIntCounter.flush: pending not cleared");
    let n1 = env::n();
    l.flush();
    k.flush();
    assert!(env::n() == n1, "C12.LocalIntCounter: second flush / flush of an empty clone adds something");
}

//@ id: c12_local_counter_ledger_sequential
//@ prop: C12, C01
//@ tier: quick
//@ strength: complete (real atomics, no interference: inductive step of the ledger invariant from an arbitrary state)
//@ fn: counter::GenericLocalCounter::flush, counter::GenericLocalCounter::inc_by, counter::GenericLocalCounter::reset, counter::GenericCounter::inc_by
//@ obligation: from any state (shared s, pending p): local inc_by(v) -> (s, p+v); flush -> (s+p, 0) and flush again -> unchanged; reset -> (s, 0); direct inc_by(w) -> (s+w, p).  Hence shared = direct + sum of flushed batches after every history.
#[kani::proof]
#[kani::unwind(3)]
fn c12_local_counter_ledger_sequential() {
    let s: u64 = kani::any();
    let p: u64 = kani::any();
    let v: u64 = kani::any();
    kani::assume(p < (1 << 62) && v < (1 << 62));
    let c: IntCounter = mk_counter::<AtomicU64>(s);
    let l = GenericLocalCounter { counter: c.clone(), val: RefCell::new(p) };
    let op: u8 = kani::any();
    match op {
        0 => {
            l.inc_by(v);
            assert!(c.get() == s && l.get() == p + v, "C12 ledger: local inc_by");
        }
        1 => {
            l.flush();
            assert!(c.get() == s.wrapping_add(p) && l.get() == 0, "C12 ledger: flush must move exactly the pending amount");
            l.flush();
            assert!(c.get() == s.wrapping_add(p) && l.get() == 0, "C12 ledger: second flush must add nothing");
        }
        2 => {
            l.reset();
            assert!(c.get() == s && l.get() == 0, "C12 ledger: reset discards only local data");
        }
        _ => {
            c.inc_by(v);
            assert!(c.get() == s.wrapping_add(v) && l.get() == p, "C12 ledger: direct update");
        }
    }
    // float flavour of the flush step
    let sf: f64 = kani::any();
    let pf: f64 = kani::any();
    kani::assume(pf >= 0.0);
    let cf: Counter = mk_counter::<AtomicF64>(sf);
    let lf = GenericLocalCounter { counter: cf.clone(), val: RefCell::new(pf) };
    lf.flush();
    if pf == 0.0 {
        assert!(feq(cf.get(), sf), "C12 ledger f64: empty flush changed the counter");
    } else {
        assert!(feq(cf.get(), rt(sf) + pf), "C12 ledger f64: flush must add exactly the pending amount");
    }
    assert!(lf.get() == 0.0, "C12 ledger f64: pending not cleared");
}
