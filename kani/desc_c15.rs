//! C15 — descriptor identity is structural.  Child module of src/desc.rs.
//! FnvHasher is replaced by the byte-stream recorder: the obligations say WHICH BYTES Desc::new
//! feeds to the two hashers; the Verus lemma c05_frame_injective.rs turns "stream = frame(pieces)"
//! into "equal stream <=> equal pieces".  The request map's iteration order is enumerated through
//! the collections shim's order seed (both orders of a two-element map, independently for each of
//! the two iterations Desc::new performs).
#![allow(dead_code, unused)]
use super::*;
use crate::__vcoll as coll;
use crate::__vsup::*;

/// a one-byte string with a symbolic ASCII byte (fixed length: cheap for CBMC, any content)
fn val1() -> String {
    let b: u8 = kani::any();
    kani::assume(b < 0x80);
    let mut v = Vec::with_capacity(1);
    v.push(b);
    unsafe { String::from_utf8_unchecked(v) }
}

// NOTE (measured): Desc::new with TWO const labels does not finish under CBMC within 15 min even
// on fully concrete input (string-keyed map + set + vector of String-pairs); the order-independence
// of the const-label handling is therefore NOT decided here.  It rests on the contracts of
// BTreeSet (sorted iteration) and slice::sort, which the shims assume anyway.

/// one const label, two variable labels supplied as ["d", "c"], REAL FNV-1a
fn var_hashes() {
    coll::set_order_seed(0);
    let mut consts: HashMap<String, String> = HashMap::new();
    consts.insert("k".to_owned(), "v".to_owned());
    let mut vars: Vec<String> = Vec::with_capacity(2);
    vars.push("d".to_owned());
    vars.push("c".to_owned());
    let r = Desc::new("m".to_owned(), "h".to_owned(), vars, consts);
    match &r {
        Ok(d) => {
            assert!(d.id == fnv1a(&[b'm', 0xFF, b'v', 0xFF]), "C15.id: identity must not depend on variable labels");
            assert!(d.dim_hash == fnv1a(&[b'h', 0xFF, b'$', b'c', 0xFF, b'$', b'd', 0xFF, b'k', 0xFF]), "C15.dim: not the hash of help and the SORTED set of '$'-prefixed variable names and const names");
            assert!(d.variable_labels.len() == 2 && d.variable_labels[0] == "d" && d.variable_labels[1] == "c", "C15: variable label order not preserved in the descriptor");
        }
        Err(_) => assert!(false, "C15: well-formed descriptor refused"),
    }
    core::mem::forget(r);
}

//@ id: c15_variable_label_hashes
//@ prop: C15
//@ tier: quick
//@ strength: bounded(enumerated: 1 const label, 2 variable labels supplied in non-sorted order), real FNV-1a
//@ fn: desc::Desc::new
//@ obligation: dim_hash = FNV-1a(frame([help] ++ sorted('$'-prefixed variable names ++ const names))): independent of the order in which variable labels were supplied; id does not depend on variable labels; the descriptor keeps the declared order
#[kani::proof]
#[kani::unwind(12)]
#[kani::stub(alloc::fmt::format, stub_format)]
#[kani::stub(<[LabelPair]>::sort, stub_sort)]
fn c15_variable_label_hashes() {
    var_hashes();
}

fn fnv1a(bytes: &[u8]) -> u64 {
    let mut h: u64 = 0xcbf29ce484222325;
    let mut i = 0;
    while i < bytes.len() {
        h ^= bytes[i] as u64;
        h = h.wrapping_mul(0x100000001b3);
        i += 1;
    }
    h
}

//@ id: c15_id_and_dim_are_the_stream_hashes
//@ prop: C15
//@ tier: quick
//@ strength: bounded(one concrete descriptor, real FNV-1a)
//@ fn: desc::Desc::new
//@ obligation: with the real hasher Desc.id is FNV-1a of the identity stream fq_name 0xFF value 0xFF and Desc.dim_hash is FNV-1a of the dimension stream help 0xFF name 0xFF (not swapped, not constant)
#[kani::proof]
#[kani::unwind(8)]
#[kani::stub(alloc::fmt::format, stub_format)]
#[kani::stub(<[LabelPair]>::sort, stub_sort)]
fn c15_id_and_dim_are_the_stream_hashes() {
    let mut consts: HashMap<String, String> = HashMap::new();
    consts.insert("a".to_owned(), "x".to_owned());
    let r = Desc::new("m".to_owned(), "h".to_owned(), Vec::new(), consts);
    match &r {
        Ok(d) => {
            assert!(d.id == fnv1a(&[b'm', 0xFF, b'x', 0xFF]), "C15: id is not the hash of the identity stream");
            assert!(d.dim_hash == fnv1a(&[b'h', 0xFF, b'a', 0xFF]), "C15: dim_hash is not the hash of the dimension stream");
        }
        Err(_) => assert!(false, "C15: well-formed descriptor refused"),
    }
    core::mem::forget(r);
}

//@ id: c15_real_fnv_separator_sensitivity
//@ prop: C15
//@ tier: quick
//@ strength: bounded(two concrete descriptor pairs whose name/value or help/name split differs only in where one string ends and the next begins), real FNV-1a
//@ fn: desc::Desc::new
//@ obligation: with the real hasher, (fq_name "ab", value "c") and (fq_name "a", value "bc") get different ids, and (help "ab", const name "c") vs (help "a", const name "bc") different dimension hashes
#[kani::proof]
#[kani::unwind(8)]
#[kani::stub(alloc::fmt::format, stub_format)]
#[kani::stub(<[LabelPair]>::sort, stub_sort)]
fn c15_real_fnv_separator_sensitivity() {
    let mk = |fq: &str, help: &str, cn: &str, cv: &str| {
        let mut consts: HashMap<String, String> = HashMap::new();
        consts.insert(cn.to_owned(), cv.to_owned());
        Desc::new(fq.to_owned(), help.to_owned(), Vec::new(), consts)
    };
    let d1 = mk("ab", "h", "k", "c");
    let d2 = mk("a", "h", "k", "bc");
    let d3 = mk("m", "ab", "c", "v");
    let d4 = mk("m", "a", "bc", "v");
    match (&d1, &d2, &d3, &d4) {
        (Ok(a), Ok(b), Ok(c), Ok(d)) => {
            assert!(a.id != b.id, "C15: boundary-shifted name/value get the same id");
            assert!(c.dim_hash != d.dim_hash, "C15: boundary-shifted help/label-name get the same dimension hash");
            assert!(a.dim_hash == b.dim_hash, "C15: same help and label names must give the same dimension hash");
        }
        _ => assert!(false, "C15: well-formed descriptor refused"),
    }
    core::mem::forget((d1, d2, d3, d4));
}

//@ id: c15_empty_const_value_is_framed
//@ prop: C15
//@ tier: quick
//@ strength: bounded(enumerated: one concrete descriptor whose single const label has the EMPTY value), real FNV-1a
//@ fn: desc::Desc::new
//@ obligation: an empty const-label value still contributes its separator to the identity stream (id = FNV-1a(fq_name FF FF)), so the position of an empty value is not lost and `{a: ""}` differs from 'no const labels'
#[kani::proof]
#[kani::unwind(8)]
#[kani::stub(alloc::fmt::format, stub_format)]
#[kani::stub(<[LabelPair]>::sort, stub_sort)]
fn c15_empty_const_value_is_framed() {
    let mut consts: HashMap<String, String> = HashMap::new();
    consts.insert("a".to_owned(), String::new());
    let r = Desc::new("m".to_owned(), "h".to_owned(), Vec::new(), consts);
    match &r {
        Ok(d) => {
            assert!(d.id == fnv1a(&[b'm', 0xFF, 0xFF]), "C15: an empty const-label value is not framed (its separator is missing from the identity stream)");
            assert!(d.id != fnv1a(&[b'm', 0xFF]), "C15: descriptor with an empty const value has the identity of one without const labels");
        }
        Err(_) => assert!(false, "C15: well-formed descriptor refused"),
    }
    core::mem::forget(r);
}
