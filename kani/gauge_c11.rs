//! C11 — GenericGauge over AtomicF64 / AtomicI64.  Child module of src/gauge.rs.
#![allow(dead_code, unused)]
use super::*;
use crate::__venv as env;
use crate::__vsup::*;

fn mk_gauge<P: Atomic>(init: P::T) -> GenericGauge<P> {
    GenericGauge { v: Arc::new(mk_value::<P>(init, ValueType::Gauge)) }
}

//@ id: c11_gauge_f64_steps
//@ prop: C11
//@ tier: quick
//@ strength: complete in values and interference (callee AtomicF64::inc_by replaced by its proved contract)
//@ fn: gauge::GenericGauge::set, gauge::GenericGauge::inc, gauge::GenericGauge::dec, gauge::GenericGauge::add, gauge::GenericGauge::sub, gauge::GenericGauge::get, value::Value::dec, value::Value::dec_by
//@ obligation: Gauge::set(v) is exactly one 64-bit store of v's bits; inc/dec/add(x)/sub(x) are exactly one atomic add of 1/-1/x/-x (load + compare-exchange against the loaded value); get is exactly one load whose value is returned; no other atomic step
#[kani::proof]
#[kani::unwind(6)]
#[kani::stub(std::sync::atomic::Atomic::<u64>::load, env::env_load)]
#[kani::stub(std::sync::atomic::Atomic::<u64>::compare_exchange_weak, env::env_cas_weak)]
#[kani::stub(std::sync::atomic::Atomic::<u64>::store, env::env_store)]
#[kani::stub(std::sync::atomic::Atomic::<u64>::fetch_add, env::env_fetch_add)]
#[kani::stub(std::sync::atomic::Atomic::<u64>::fetch_sub, env::env_fetch_sub)]
#[kani::stub(std::sync::atomic::Atomic::<u64>::swap, env::env_swap)]
#[kani::stub(<crate::atomic64::AtomicF64 as crate::atomic64::Atomic>::inc_by, env::contract_f64_inc_by)]
fn c11_gauge_f64_steps() {
    env::reset(1);
    let g: Gauge = mk_gauge::<AtomicF64>(kani::any());
    let cell = addr_of(&g.v.val);
    let x: f64 = kani::any();
    let which: u8 = kani::any();
    match which {
        0 => {
            g.set(x);
            assert!(env::n() == 1 && env::ev(0).kind == env::STORE && env::ev(0).cell == cell && env::ev(0).a == x.to_bits(), "C11.Gauge.set: not exactly one store of the value's bits");
        }
        1 => {
            g.inc();
            assert!(env::is_single_f64_add(0, cell, 1.0), "C11.Gauge.inc: not exactly one atomic add of 1.0 on the gauge's cell");
        }
        2 => {
            g.dec();
            assert!(env::is_single_f64_add(0, cell, -1.0), "C11.Gauge.dec: not exactly one atomic add of -1.0 on the gauge's cell");
        }
        3 => {
            g.add(x);
            assert!(env::is_single_f64_add(0, cell, x), "C11.Gauge.add: not exactly one atomic add of x on the gauge's cell");
        }
        4 => {
            g.sub(x);
            assert!(env::is_single_f64_add(0, cell, -x), "C11.Gauge.sub: not exactly one atomic add of -x on the gauge's cell");
        }
        _ => {
            let r = g.get();
            assert!(env::n() == 1 && env::ev(0).kind == env::LOAD && env::ev(0).cell == cell && env::ev(0).ret == r.to_bits(), "C11.Gauge.get: not exactly one load whose value is returned");
        }
    }
}

//@ id: c11_gauge_i64_steps
//@ prop: C11
//@ tier: quick
//@ strength: complete in values and interference
//@ fn: gauge::GenericGauge::set, gauge::GenericGauge::inc, gauge::GenericGauge::dec, gauge::GenericGauge::add, gauge::GenericGauge::sub, gauge::GenericGauge::get
//@ obligation: IntGauge::set(v) is exactly one store of v; inc = one fetch_add(1); dec = one fetch_sub(1); add(x) = one fetch_add(x); sub(x) = one fetch_sub(x); get = one load whose value is returned
#[kani::proof]
#[kani::unwind(6)]
#[kani::stub(std::sync::atomic::Atomic::<i64>::load, env::env_load_i)]
#[kani::stub(std::sync::atomic::Atomic::<i64>::store, env::env_store_i)]
#[kani::stub(std::sync::atomic::Atomic::<i64>::fetch_add, env::env_fetch_add_i)]
#[kani::stub(std::sync::atomic::Atomic::<i64>::fetch_sub, env::env_fetch_sub_i)]
fn c11_gauge_i64_steps() {
    env::reset(0);
    let g: IntGauge = mk_gauge::<AtomicI64>(kani::any());
    let cell = addr_of(&g.v.val);
    let x: i64 = kani::any();
    let which: u8 = kani::any();
    match which {
        0 => {
            g.set(x);
            assert!(env::n() == 1 && env::ev(0).kind == env::STORE && env::ev(0).cell == cell && env::ev(0).a == x as u64, "C11.IntGauge.set: not exactly one store of the value");
        }
        1 => {
            g.inc();
            assert!(env::n() == 1 && env::ev(0).kind == env::FADD && env::ev(0).cell == cell && env::ev(0).a == 1, "C11.IntGauge.inc: not exactly one fetch_add(1)");
        }
        2 => {
            g.dec();
            assert!(env::n() == 1 && env::ev(0).kind == env::FSUB && env::ev(0).cell == cell && env::ev(0).a == 1, "C11.IntGauge.dec: not exactly one fetch_sub(1)");
        }
        3 => {
            g.add(x);
            assert!(env::n() == 1 && env::ev(0).kind == env::FADD && env::ev(0).cell == cell && env::ev(0).a == x as u64, "C11.IntGauge.add: not exactly one fetch_add(x)");
        }
        4 => {
            g.sub(x);
            assert!(env::n() == 1 && env::ev(0).kind == env::FSUB && env::ev(0).cell == cell && env::ev(0).a == x as u64, "C11.IntGauge.sub: not exactly one fetch_sub(x)");
        }
        _ => {
            let r = g.get();
            assert!(env::n() == 1 && env::ev(0).kind == env::LOAD && env::ev(0).cell == cell && env::ev(0).ret == r as u64, "C11.IntGauge.get: not exactly one load whose value is returned");
        }
    }
}

//@ id: c11_gauge_sequential
//@ prop: C11
//@ tier: quick
//@ strength: complete (real atomics, sequential functional contract)
//@ fn: gauge::GenericGauge::set, gauge::GenericGauge::add, gauge::GenericGauge::sub, gauge::GenericGauge::inc, gauge::GenericGauge::dec, gauge::GenericGauge::get
//@ obligation: sequentially: set(v);get = v (bit-exact); IntGauge add(x);sub(x) restores the value exactly; inc;dec restores it; Gauge add(x) gives c + x and sub(x) gives c + (-x) (IEEE; exact inversion is not demanded of floating point)
#[kani::proof]
#[kani::unwind(3)]
fn c11_gauge_sequential() {
    let c: i64 = kani::any();
    let x: i64 = kani::any();
    let g: IntGauge = mk_gauge::<AtomicI64>(c);
    g.add(x);
    assert!(g.get() == c.wrapping_add(x), "C11.IntGauge.add");
    g.sub(x);
    assert!(g.get() == c, "C11.IntGauge: sub(x) does not undo add(x)");
    g.inc();
    assert!(g.get() == c.wrapping_add(1), "C11.IntGauge.inc");
    g.dec();
    assert!(g.get() == c, "C11.IntGauge: dec does not undo inc");
    g.set(x);
    assert!(g.get() == x, "C11.IntGauge.set/get");
    let cf: f64 = kani::any();
    let xf: f64 = kani::any();
    let f: Gauge = mk_gauge::<AtomicF64>(cf);
    f.add(xf);
    assert!(feq(f.get(), rt(cf) + xf), "C11.Gauge.add");
    f.set(cf);
    assert!(f.get().to_bits() == cf.to_bits(), "C11.Gauge.set/get is not bit-exact");
    f.sub(xf);
    assert!(feq(f.get(), rt(cf) + (-xf)), "C11.Gauge.sub");
}
