//! C03 / C12 / C18 — representation invariant of the two-shard histogram over all SEQUENTIAL
//! histories (inductive step obligations from an ARBITRARY state satisfying the invariant),
//! local-histogram hand-over, timers.  Child module of src/histogram.rs.  Real std atomics.
#![allow(dead_code, unused)]
use super::__v_hist_c08::{mk_core, mk_local, spec_first_fit, spec_strictly_increasing};
use super::*;
use crate::__vsup::*;

pub(crate) const LIM: u64 = 1 << 40; // no-overflow precondition on counts (count < 2^63 in the design)

/// abstract state A of a histogram with B buckets
#[derive(Clone, Copy)]
pub(crate) struct Abs<const B: usize> {
    pub count: u64,
    pub sum: f64,
    pub buckets: [u64; B],
}

impl<const B: usize> Abs<B> {
    pub fn any() -> Self {
        let a = Abs { count: kani::any(), sum: kani::any(), buckets: kani::any() };
        kani::assume(a.count < LIM);
        // reachable sums are never -0.0 (the sum starts at +0.0 and x + y = -0.0 only if both are)
        kani::assume(a.sum.to_bits() != (-0.0f64).to_bits());
        let mut tot: u64 = 0;
        let mut i = 0;
        while i < B {
            kani::assume(a.buckets[i] < LIM);
            tot += a.buckets[i];
            i += 1;
        }
        // every observation is in at most one bucket
        kani::assume(tot <= a.count);
        a
    }
}

/// Build a core in an ARBITRARY state satisfying the invariant I(core, a) with hot shard `hot`.
pub(crate) fn core_in_state<const B: usize>(bounds: &[f64; B], a: &Abs<B>, hot: usize) -> HistogramCore {
    let core = mk_core(bounds.to_vec());
    core.shard_and_count.inner.store(((hot as u64) << 63) | a.count, Ordering::Relaxed);
    core.shards[hot].count.set(a.count);
    core.shards[hot].sum.set(a.sum);
    let mut i = 0;
    while i < B {
        core.shards[hot].buckets[i].set(a.buckets[i]);
        i += 1;
    }
    core
}

/// I(core, a): the hot shard (named by the top bit of shard_and_count) holds exactly `a`, the low
/// 63 bits equal a.count, the cold shard is all zero.
pub(crate) fn inv_holds<const B: usize>(core: &HistogramCore, a: &Abs<B>, hot: usize, tag: &'static str) {
    let sc = core.shard_and_count.inner.load(Ordering::Relaxed);
    assert!((sc >> 63) as usize == hot, "C03.inv: wrong shard is marked hot");
    assert!(sc & ((1u64 << 63) - 1) == a.count, "C03.inv: overall count differs from the abstract count");
    let h = &core.shards[hot];
    let c = &core.shards[1 - hot];
    assert!(h.count.get() == a.count, "C03.inv: hot shard count differs from the abstract count");
    assert!(feq(h.sum.get(), a.sum), "C03.inv: hot shard sum differs from the abstract sum");
    assert!(c.count.get() == 0, "C03.inv: cold shard count not zero");
    assert!(c.sum.get().to_bits() == 0, "C03.inv: cold shard sum not reset to +0.0");
    let mut i = 0;
    while i < B {
        assert!(h.buckets[i].get() == a.buckets[i], "C03.inv: hot shard bucket differs from the abstract bucket");
        assert!(c.buckets[i].get() == 0, "C03.inv: cold shard bucket not zero");
        i += 1;
    }
}

fn any_inc_bounds<const B: usize>() -> [f64; B] {
    let b: [f64; B] = kani::any();
    kani::assume(spec_strictly_increasing(&b));
    b
}

//@ id: c03_base_empty
//@ prop: C03
//@ tier: quick
//@ strength: bounded(B=3 buckets)
//@ fn: histogram::Shard::new, histogram::ShardAndCount::new
//@ obligation: base case: the state built by Shard::new / ShardAndCount::new (what HistogramCore::new installs) satisfies the invariant for the empty abstract state with shard 0 hot
#[kani::proof]
#[kani::unwind(5)]
fn c03_base_empty() {
    let bounds = any_inc_bounds::<3>();
    let core = mk_core(bounds.to_vec());
    let a = Abs::<3> { count: 0, sum: 0.0, buckets: [0; 3] };
    inv_holds(&core, &a, 0, "base");
    assert!(core.sample_count() == 0 && core.sample_sum().to_bits() == 0, "C03.base: getters");
}

fn observe_step<const B: usize>() {
    let bounds = any_inc_bounds::<B>();
    let a = Abs::<B>::any();
    let hot: usize = if kani::any() { 1 } else { 0 };
    let core = core_in_state(&bounds, &a, hot);
    let v: f64 = kani::any();
    core.observe(v);
    let mut a2 = a;
    a2.count += 1;
    a2.sum = rt(a.sum) + v;
    if let Some(i) = spec_first_fit(&bounds, v) {
        a2.buckets[i] += 1;
    }
    inv_holds(&core, &a2, hot, "observe");
}

//@ id: c03_observe_step_b3
//@ prop: C03, C08
//@ tier: quick
//@ strength: bounded(B=3 buckets), complete in values (arbitrary invariant state, either shard hot, every f64 observation)
//@ fn: histogram::HistogramCore::observe
//@ obligation: inductive step: from ANY state satisfying the invariant for A, observe(v) yields a state satisfying it for A + v (count+1, sum+v, first-fit bucket+1); cold shard untouched
#[kani::proof]
#[kani::unwind(5)]
fn c03_observe_step_b3() {
    observe_step::<3>();
}

fn flush_step<const B: usize>() {
    let bounds = any_inc_bounds::<B>();
    let a = Abs::<B>::any();
    let hot: usize = if kani::any() { 1 } else { 0 };
    let core = core_in_state(&bounds, &a, hot);
    let h = Histogram { core: Arc::new(core) };
    // arbitrary well-formed local batch
    let l = Abs::<B>::any();
    kani::assume(l.count != 0 || (l.sum.to_bits() == 0));
    let mut local = mk_local(&h, l.buckets.to_vec(), l.count, l.sum);
    local.flush();
    let mut a2 = a;
    if l.count != 0 {
        a2.count += l.count;
        a2.sum = rt(a.sum) + l.sum;
        let mut i = 0;
        while i < B {
            a2.buckets[i] += l.buckets[i];
            i += 1;
        }
    }
    inv_holds(&h.core, &a2, hot, "flush");
    // the batch is handed over entirely and the local side is empty afterwards
    assert!(local.count == 0 && local.sum.to_bits() == 0, "C12.flush: local count/sum not cleared");
    let mut i = 0;
    while i < B {
        assert!(local.counts[i] == 0, "C12.flush: local bucket not cleared");
        i += 1;
    }
    // a second flush adds nothing
    local.flush();
    inv_holds(&h.core, &a2, hot, "flush2");
    kani::cover!(true);
    core::mem::forget(local);
}

//@ id: c03_flush_step_b3
//@ prop: C03, C12
//@ tier: quick
//@ strength: bounded(B=3 buckets), complete in values (arbitrary invariant state, arbitrary well-formed local batch)
//@ fn: histogram::LocalHistogramCore::flush, histogram::LocalHistogramCore::clear
//@ obligation: inductive step: flushing a local batch (counts, count, sum) from any invariant state yields the invariant for A + batch (added entirely: every bucket, the count and the sum), clears the local side, and a second flush changes nothing
#[kani::proof]
#[kani::unwind(5)]
fn c03_flush_step_b3() {
    flush_step::<3>();
}

fn proto_step<const B: usize>() {
    let bounds = any_inc_bounds::<B>();
    let a = Abs::<B>::any();
    let hot: usize = if kani::any() { 1 } else { 0 };
    let core = core_in_state(&bounds, &a, hot);
    let snap = core.proto();
    // the snapshot is exactly A
    assert!(snap.get_sample_count() == a.count, "C03.proto: snapshot count differs from the abstract count");
    assert!(feq(snap.get_sample_sum(), a.sum), "C03.proto: snapshot sum differs from the abstract sum");
    let bs = snap.get_bucket();
    assert!(bs.len() == B, "C03.proto: bucket list length");
    let mut acc = 0u64;
    let mut i = 0;
    while i < B {
        acc += a.buckets[i];
        assert!(bs[i].cumulative_count() == acc, "C03.proto: cumulative bucket differs from the abstract prefix sum");
        assert!(bs[i].upper_bound().to_bits() == bounds[i].to_bits(), "C03.proto: bound");
        i += 1;
    }
    // nothing is lost: the same A is now held by the other shard, the drained shard is zero
    // (this is the case 'third and later collects': the step starts from ANY invariant state)
    let mut a2 = a;
    a2.sum = 0.0 + rt(a.sum);
    inv_holds(&core, &a2, 1 - hot, "proto");
    // the collect lock is released
    assert!(core.collect_lock.try_lock().is_ok(), "C03.proto: collect lock still held after return");
    // getters agree with the snapshot
    assert!(core.sample_count() == a.count, "C03.get_sample_count disagrees with the snapshot");
    assert!(feq(core.sample_sum(), a2.sum), "C03.get_sample_sum disagrees with the snapshot");
}

//@ id: c03_proto_step_b3
//@ prop: C03, C08
//@ tier: quick
//@ strength: bounded(B=3 buckets), complete in values (arbitrary invariant state, either shard hot)
//@ fn: histogram::HistogramCore::proto, histogram::HistogramCore::sample_count, histogram::HistogramCore::sample_sum
//@ obligation: inductive step: from ANY invariant state for A, proto returns exactly A (count, sum, cumulative buckets) and leaves a state satisfying the invariant for the SAME A with the shards' roles swapped (nothing lost, nothing doubled, drained shard zeroed, lock released); get_sample_count/get_sample_sum agree with the snapshot
#[kani::proof]
#[kani::unwind(5)]
fn c03_proto_step_b3() {
    proto_step::<3>();
}

//@ id: c03_proto_step_b4
//@ prop: C03, C08
//@ tier: thorough
//@ strength: bounded(B=4 buckets), complete in values
//@ fn: histogram::HistogramCore::proto
//@ obligation: inductive step for proto with four buckets
#[kani::proof]
#[kani::unwind(6)]
fn c03_proto_step_b4() {
    proto_step::<4>();
}

//@ id: c03_observe_step_b4
//@ prop: C03, C08
//@ tier: thorough
//@ strength: bounded(B=4 buckets), complete in values
//@ fn: histogram::HistogramCore::observe
//@ obligation: inductive step for observe with four buckets
#[kani::proof]
#[kani::unwind(6)]
fn c03_observe_step_b4() {
    observe_step::<4>();
}

//@ id: c03_flush_step_b4
//@ prop: C03, C12
//@ tier: thorough
//@ strength: bounded(B=4 buckets), complete in values
//@ fn: histogram::LocalHistogramCore::flush
//@ obligation: inductive step for flush with four buckets
#[kani::proof]
#[kani::unwind(6)]
fn c03_flush_step_b4() {
    flush_step::<4>();
}

//@ id: c03_getters_step
//@ prop: C03
//@ tier: quick
//@ strength: bounded(B=2 buckets), complete in values
//@ fn: histogram::HistogramCore::sample_count, histogram::HistogramCore::sample_sum, histogram::Histogram::get_sample_count, histogram::Histogram::get_sample_sum
//@ obligation: from any invariant state get_sample_count returns A.count and get_sample_sum returns A.sum (it reads the HOT shard), and neither changes the state
#[kani::proof]
#[kani::unwind(4)]
fn c03_getters_step() {
    let bounds = any_inc_bounds::<2>();
    let a = Abs::<2>::any();
    let hot: usize = if kani::any() { 1 } else { 0 };
    let h = Histogram { core: Arc::new(core_in_state(&bounds, &a, hot)) };
    assert!(h.get_sample_count() == a.count, "C03.get_sample_count: not the abstract count");
    assert!(feq(h.get_sample_sum(), a.sum), "C03.get_sample_sum: not the abstract sum (wrong shard read?)");
    inv_holds(&h.core, &a, hot, "getters");
    assert!(h.core.collect_lock.try_lock().is_ok(), "C03.get_sample_sum: lock still held");
}

// ---------------------------------------------------------------------------------------------
// C12: local histogram (clone, clear, drop)

//@ id: c12_local_histogram_clone_clear_drop
//@ prop: C12
//@ tier: quick
//@ strength: bounded(B=2 buckets), complete in values
//@ fn: histogram::LocalHistogram::clone, histogram::LocalHistogram::clear, histogram::LocalHistogram::flush, histogram::LocalHistogram::observe, histogram::LocalHistogram::drop, histogram::LocalHistogramCore::clear
//@ obligation: a clone of a local histogram starts empty and targets the same shared histogram; clear discards only unflushed local data (shared untouched); dropping a local histogram hands its pending batch to the shared histogram exactly as flush does
#[kani::proof]
#[kani::unwind(4)]
fn c12_local_histogram_clone_clear_drop() {
    let bounds = any_inc_bounds::<2>();
    let a = Abs::<2>::any();
    let hot: usize = if kani::any() { 1 } else { 0 };
    let h = Histogram { core: Arc::new(core_in_state(&bounds, &a, hot)) };
    let l = Abs::<2>::any();
    kani::assume(l.count != 0 || l.sum.to_bits() == 0);
    let local = LocalHistogram {
        core: RefCell::new(mk_local(&h, l.buckets.to_vec(), l.count, l.sum)),
    };
    // clone: empty, same target, original untouched
    let k = local.clone();
    assert!(k.get_sample_count() == 0 && k.get_sample_sum().to_bits() == 0, "C12.clone: clone does not start empty");
    assert!(k.core.borrow().counts.len() == 2 && k.core.borrow().counts[0] == 0 && k.core.borrow().counts[1] == 0, "C12.clone: clone buckets not empty");
    assert!(Arc::ptr_eq(&k.core.borrow().histogram.core, &h.core), "C12.clone: clone targets another histogram");
    assert!(local.get_sample_count() == l.count, "C12.clone: cloning changed the original");
    drop(k); // empty clone: dropping it must not change the shared histogram
    inv_holds(&h.core, &a, hot, "drop-empty-clone");
    let which: u8 = kani::any();
    if which == 0 {
        local.clear();
        assert!(local.get_sample_count() == 0 && local.get_sample_sum().to_bits() == 0, "C12.clear: local data not discarded");
        inv_holds(&h.core, &a, hot, "clear");
        drop(local);
        inv_holds(&h.core, &a, hot, "drop-after-clear");
    } else {
        // drop == flush
        drop(local);
        let mut a2 = a;
        if l.count != 0 {
            a2.count += l.count;
            a2.sum = rt(a.sum) + l.sum;
            a2.buckets[0] += l.buckets[0];
            a2.buckets[1] += l.buckets[1];
        }
        inv_holds(&h.core, &a2, hot, "drop");
    }
    kani::cover!(true);
}

//@ id: c12_local_history_two_observations
//@ prop: C12, C08
//@ tier: quick
//@ strength: bounded(B=2 buckets, history = fresh histogram; new local histogram; observe v1; observe v2; then flush or drop), complete in values
//@ fn: histogram::LocalHistogram::observe, histogram::LocalHistogram::flush, histogram::LocalHistogramCore::new, histogram::LocalHistogramCore::observe, histogram::LocalHistogramCore::flush, histogram::Histogram::local, histogram::LocalHistogram::drop
//@ obligation: built only through the public operations (no hand-made local state): after two local observations in ANY order of magnitude nothing has reached the shared histogram; flush (or drop) then hands over exactly those two observations -- each in its first-fit bucket, count 2 -- and a second flush adds nothing (the sums are the step obligation c03_flush_step)
#[kani::proof]
#[kani::unwind(4)]
fn c12_local_history_two_observations() {
    let bounds = any_inc_bounds::<2>();
    let h = Histogram { core: Arc::new(mk_core(bounds.to_vec())) };
    let local = h.local();
    let v1: f64 = kani::any();
    let v2: f64 = kani::any();
    local.observe(v1);
    local.observe(v2);
    assert!(h.get_sample_count() == 0 && h.core.shards[0].count.get() == 0, "C12: a local observation reached the shared histogram before flush");
    let mut exp = [0u64; 2];
    if let Some(i) = spec_first_fit(&bounds, v1) {
        exp[i] += 1;
    }
    if let Some(i) = spec_first_fit(&bounds, v2) {
        exp[i] += 1;
    }
    let by_drop: bool = kani::any();
    if by_drop {
        drop(local);
    } else {
        local.flush();
        local.flush();
        assert!(local.get_sample_count() == 0, "C12.flush: local data not cleared");
        core::mem::forget(local);
    }
    let s = &h.core.shards[0];
    assert!(h.get_sample_count() == 2 && s.count.get() == 2, "C12: flush/drop did not hand over exactly the two accumulated observations (count)");
    assert!(s.buckets[0].get() == exp[0] && s.buckets[1].get() == exp[1], "C12: flush/drop did not hand over exactly the accumulated bucket counts");
}

//@ id: c12_local_history_clear_clone
//@ prop: C12
//@ tier: quick
//@ strength: bounded(B=2 buckets, history = fresh histogram; new local; observe v1; observe v2; then clear+flush+drop, or clone+drop clone), complete in values
//@ fn: histogram::LocalHistogram::clear, histogram::LocalHistogram::clone, histogram::LocalHistogramCore::clear, histogram::LocalHistogram::drop
//@ obligation: built only through the public operations: clear discards the pending data so that flush and drop hand over nothing; a clone taken while data is pending is empty (count 0 and every bucket 0) and dropping it hands over nothing, while the original keeps its pending data
#[kani::proof]
#[kani::unwind(4)]
fn c12_local_history_clear_clone() {
    let bounds = any_inc_bounds::<2>();
    let h = Histogram { core: Arc::new(mk_core(bounds.to_vec())) };
    let local = h.local();
    let v1: f64 = kani::any();
    let v2: f64 = kani::any();
    local.observe(v1);
    local.observe(v2);
    let which: bool = kani::any();
    if which {
        local.clear();
        local.flush();
        drop(local);
    } else {
        let k = local.clone();
        assert!(k.get_sample_count() == 0 && k.get_sample_sum().to_bits() == 0, "C12.clone: clone of a pending local histogram is not empty");
        assert!(k.core.borrow().counts[0] == 0 && k.core.borrow().counts[1] == 0, "C12.clone: clone carries pending bucket counts");
        drop(k);
        assert!(local.get_sample_count() == 2, "C12.clone: cloning changed the original");
        core::mem::forget(local);
    }
    let s = &h.core.shards[0];
    assert!(h.get_sample_count() == 0 && s.count.get() == 0 && s.buckets[0].get() == 0 && s.buckets[1].get() == 0 && s.sum.get().to_bits() == 0,
        "C12: cleared data or an empty clone reached the shared histogram");
}

//@ id: c03_proto_step_b2
//@ prop: C03, C08
//@ tier: quick
//@ strength: bounded(B=2 buckets), complete in values (arbitrary invariant state, either shard hot)
//@ fn: histogram::HistogramCore::proto
//@ obligation: inductive step for proto with two buckets (cheapest instance; stays within the time limit for heavier reformulations of proto)
#[kani::proof]
#[kani::unwind(4)]
fn c03_proto_step_b2() {
    proto_step::<2>();
}
