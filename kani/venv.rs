//! Environment (rely) model for std atomics — `crate::__venv`, cfg(kani) only.
//!
//! Harnesses that carry `#[kani::stub(std::sync::atomic::Atomic::<u64>::load, env_load)]` etc.
//! replace every atomic step of the code under contract by an *event*:
//!   * the value an atomic step reads is ARBITRARY (`kani::any()`): any other thread may have
//!     written anything since this thread's last step (arbitrary interference);
//!   * the step is appended to a ghost log (kind, cell address, operands, value read, ordering).
//! The guarantee half of the contract is then an assertion over the log: which cells are
//! touched, by which single atomic operation, with which operands and orderings.
//! `compare_exchange_weak` may fail (interference or spuriously) at most `MAX_CAS_FAILS` times
//! per harness (bounded fairness; the retry loops are unwound with unwinding assertions on).
#![allow(dead_code, unused, static_mut_refs)]
use std::sync::atomic::{AtomicI64, AtomicU64, Ordering};

pub const LOAD: u8 = 1;
pub const STORE: u8 = 2;
pub const FADD: u8 = 3;
pub const FSUB: u8 = 4;
pub const SWAP: u8 = 5;
pub const CAS: u8 = 6;

/// contract-level event: "one atomic float add of `a` (bits of the delta) on `cell`" — the
/// guarantee of `AtomicF64::inc_by` proved by c01_f64_inc_by_step_*; callers are verified against
/// it through `contract_f64_inc_by` (stub), not against the body.
pub const ADD_F64: u8 = 7;

pub const RELAXED: u8 = 0;
pub const RELEASE: u8 = 1;
pub const ACQUIRE: u8 = 2;
pub const ACQREL: u8 = 3;
pub const SEQCST: u8 = 4;

pub fn ord(o: Ordering) -> u8 {
    match o {
        Ordering::Relaxed => RELAXED,
        Ordering::Release => RELEASE,
        Ordering::Acquire => ACQUIRE,
        Ordering::AcqRel => ACQREL,
        _ => SEQCST,
    }
}
/// ordering has at least acquire semantics on the read side
pub fn is_acq(o: u8) -> bool {
    o == ACQUIRE || o == ACQREL || o == SEQCST
}
/// ordering has at least release semantics on the write side
pub fn is_rel(o: u8) -> bool {
    o == RELEASE || o == ACQREL || o == SEQCST
}

#[derive(Clone, Copy)]
pub struct Ev {
    pub kind: u8,
    pub cell: usize,
    /// operand: stored value / delta / CAS expected
    pub a: u64,
    /// CAS new value
    pub b: u64,
    /// value read from the cell by this step (arbitrary)
    pub ret: u64,
    pub ord: u8,
    pub ord_fail: u8,
    pub ok: bool,
    /// was the watched mutex (see `watch_mutex`) held when the step happened
    pub locked: bool,
}
const E0: Ev = Ev { kind: 0, cell: 0, a: 0, b: 0, ret: 0, ord: 0, ord_fail: 0, ok: false, locked: false };
static mut RELY_COUNT_BOUND: u64 = 0;
static mut FLOAT_CELL: [usize; 2] = [0, 0];
/// rely condition for drained integer cells (see env_swap)
pub fn rely_counts_below(bound: u64, float_cell0: usize, float_cell1: usize) {
    unsafe {
        RELY_COUNT_BOUND = bound;
        FLOAT_CELL = [float_cell0, float_cell1];
    }
}
static mut WATCH: *const std::sync::Mutex<()> = core::ptr::null();
/// every later event records whether this mutex is held at the time of the step
pub fn watch_mutex(m: &std::sync::Mutex<()>) {
    unsafe { WATCH = m as *const _ }
}
fn watched_locked() -> bool {
    unsafe {
        if WATCH.is_null() {
            false
        } else {
            let r = (*WATCH).try_lock();
            match r {
                Ok(g) => {
                    drop(g);
                    false
                }
                Err(_) => true,
            }
        }
    }
}
pub const MAXLOG: usize = 24;
static mut LOG: [Ev; MAXLOG] = [E0; MAXLOG];
static mut N: usize = 0;
static mut CAS_FAILS: u32 = 0;
static mut MAX_CAS_FAILS: u32 = 0;

// ghost expectation for "one atomic f64 add of EXP_DELTA on EXP_CELL": checked INSIDE the events,
// with the operands the code passes (so the float expression the solver sees is the code's own
// expression shape, and the check is independent of the number of retries)
static mut EXP_ON: bool = false;
static mut EXP_CELL: usize = 0;
static mut EXP_DELTA: f64 = 0.0;
static mut EXP_FROM: usize = 0;
static mut LAST_LOAD: u64 = 0;
static mut LAST_LOAD_VALID: bool = false;
static mut OK_WRITES: u32 = 0;
/// successful compare-exchanges since reset (counted even without an expectation)
static mut CAS_OK: u32 = 0;
/// when set, events are counted but not logged (harnesses with many retries)
static mut NOLOG: bool = false;

pub fn reset(max_cas_fails: u32) {
    unsafe {
        N = 0;
        CAS_FAILS = 0;
        MAX_CAS_FAILS = max_cas_fails;
        WATCH = core::ptr::null();
        RELY_COUNT_BOUND = 0;
        EXP_ON = false;
        LAST_LOAD_VALID = false;
        OK_WRITES = 0;
        CAS_OK = 0;
        NOLOG = false;
    }
}
/// count events only (no log): for harnesses that let the environment refuse many exchanges
pub fn count_only() {
    unsafe { NOLOG = true }
}
pub fn cas_ok() -> u32 {
    unsafe { CAS_OK }
}

/// From now on every compare-exchange must be an attempt of "cell += delta".
pub fn expect_f64_add(cell: usize, delta: f64) {
    unsafe {
        EXP_ON = true;
        EXP_CELL = cell;
        EXP_DELTA = delta;
        EXP_FROM = N;
        LAST_LOAD_VALID = false;
        OK_WRITES = 0;
    }
}

/// Close the expectation: exactly one successful exchange happened, it was the last event, and
/// nothing but loads / compare-exchanges of the cell happened since `expect_f64_add`.
pub fn finish_f64_add() {
    unsafe {
        assert!(EXP_ON);
        assert!(OK_WRITES == 1, "atomic f64 add: not exactly one successful compare-exchange (lost or doubled update)");
        assert!(N >= EXP_FROM + 2, "atomic f64 add: fewer than one load + one compare-exchange");
        let last = LOG[N - 1];
        assert!(last.kind == CAS && last.ok, "atomic f64 add: atomic steps after the successful compare-exchange");
        let mut i = EXP_FROM;
        while i < N {
            let e = LOG[i];
            assert!(e.kind == LOAD || e.kind == CAS, "atomic f64 add: an atomic step other than load / compare-exchange");
            assert!(e.cell == EXP_CELL, "atomic f64 add: a step on another cell");
            i += 1;
        }
        EXP_ON = false;
    }
}
pub fn n() -> usize {
    unsafe { N }
}
pub fn ev(i: usize) -> Ev {
    unsafe { LOG[i] }
}
pub fn cas_fails() -> u32 {
    unsafe { CAS_FAILS }
}
fn push(mut e: Ev) {
    unsafe {
        if NOLOG {
            return;
        }
    }
    e.locked = watched_locked();
    unsafe {
        assert!(N < MAXLOG, "VERIF-ENV: event log overflow");
        LOG[N] = e;
        N += 1;
    }
}
pub fn addr_u(c: &AtomicU64) -> usize {
    c as *const AtomicU64 as usize
}
pub fn addr_i(c: &AtomicI64) -> usize {
    c as *const AtomicI64 as usize
}

// ---- u64 cells ------------------------------------------------------------------------------
pub fn env_load(c: &AtomicU64, o: Ordering) -> u64 {
    let v: u64 = kani::any();
    unsafe {
        if EXP_ON && addr_u(c) == EXP_CELL {
            LAST_LOAD = v;
            LAST_LOAD_VALID = true;
        }
    }
    push(Ev { kind: LOAD, cell: addr_u(c), a: 0, b: 0, ret: v, ord: ord(o), ord_fail: 0, ok: true, locked: false });
    v
}
pub fn env_store(c: &AtomicU64, val: u64, o: Ordering) {
    push(Ev { kind: STORE, cell: addr_u(c), a: val, b: 0, ret: 0, ord: ord(o), ord_fail: 0, ok: true, locked: false });
}
pub fn env_fetch_add(c: &AtomicU64, val: u64, o: Ordering) -> u64 {
    let v: u64 = kani::any();
    push(Ev { kind: FADD, cell: addr_u(c), a: val, b: 0, ret: v, ord: ord(o), ord_fail: 0, ok: true, locked: false });
    v
}
pub fn env_fetch_sub(c: &AtomicU64, val: u64, o: Ordering) -> u64 {
    let v: u64 = kani::any();
    push(Ev { kind: FSUB, cell: addr_u(c), a: val, b: 0, ret: v, ord: ord(o), ord_fail: 0, ok: true, locked: false });
    v
}
pub fn env_swap(c: &AtomicU64, val: u64, o: Ordering) -> u64 {
    let v: u64 = kani::any();
    unsafe {
        // rely: integer cells hold counts below RELY_COUNT_BOUND (the histogram's own limit is
        // 2^63 observations in total); cells registered as float cells are unconstrained
        if RELY_COUNT_BOUND != 0 && addr_u(c) != FLOAT_CELL[0] && addr_u(c) != FLOAT_CELL[1] {
            kani::assume(v < RELY_COUNT_BOUND);
        }
    }
    push(Ev { kind: SWAP, cell: addr_u(c), a: val, b: 0, ret: v, ord: ord(o), ord_fail: 0, ok: true, locked: false });
    v
}
pub fn env_cas_weak(c: &AtomicU64, current: u64, new: u64, s: Ordering, f: Ordering) -> Result<u64, u64> {
    let v: u64 = kani::any();
    let ok: bool = kani::any();
    unsafe {
        if EXP_ON {
            assert!(addr_u(c) == EXP_CELL, "atomic f64 add: compare-exchange on another cell");
            assert!(LAST_LOAD_VALID && current == LAST_LOAD, "atomic f64 add: compare-exchange expects a value other than the one just loaded (stale or foreign value)");
            assert!(
                crate::__vsup::feq(f64::from_bits(new), f64::from_bits(current) + EXP_DELTA),
                "atomic f64 add: new value is not loaded + delta"
            );
            if ok {
                OK_WRITES += 1;
                LAST_LOAD_VALID = false;
            } else {
                // a failed exchange returns the value it found: that is a read of the cell and may
                // legitimately serve as the expected value of the next attempt
                LAST_LOAD = v;
                LAST_LOAD_VALID = true;
            }
        }
        if ok {
            CAS_OK += 1;
        }
    }
    if ok {
        // success is only possible when the cell holds `current`
        kani::assume(v == current);
    } else {
        unsafe {
            kani::assume(CAS_FAILS < MAX_CAS_FAILS);
            CAS_FAILS += 1;
        }
    }
    push(Ev { kind: CAS, cell: addr_u(c), a: current, b: new, ret: v, ord: ord(s), ord_fail: ord(f), ok, locked: false });
    if ok {
        Ok(v)
    } else {
        Err(v)
    }
}

/// strong compare-exchange: like the weak one but it fails only because the cell holds another value
pub fn env_cas_strong(c: &AtomicU64, current: u64, new: u64, s: Ordering, f: Ordering) -> Result<u64, u64> {
    let r = env_cas_weak(c, current, new, s, f);
    if let Err(v) = r {
        kani::assume(v != current);
    }
    r
}

// ---- i64 cells ------------------------------------------------------------------------------
pub fn env_load_i(c: &AtomicI64, o: Ordering) -> i64 {
    let v: i64 = kani::any();
    push(Ev { kind: LOAD, cell: addr_i(c), a: 0, b: 0, ret: v as u64, ord: ord(o), ord_fail: 0, ok: true, locked: false });
    v
}
pub fn env_store_i(c: &AtomicI64, val: i64, o: Ordering) {
    push(Ev { kind: STORE, cell: addr_i(c), a: val as u64, b: 0, ret: 0, ord: ord(o), ord_fail: 0, ok: true, locked: false });
}
pub fn env_fetch_add_i(c: &AtomicI64, val: i64, o: Ordering) -> i64 {
    let v: i64 = kani::any();
    push(Ev { kind: FADD, cell: addr_i(c), a: val as u64, b: 0, ret: v as u64, ord: ord(o), ord_fail: 0, ok: true, locked: false });
    v
}
pub fn env_fetch_sub_i(c: &AtomicI64, val: i64, o: Ordering) -> i64 {
    let v: i64 = kani::any();
    push(Ev { kind: FSUB, cell: addr_i(c), a: val as u64, b: 0, ret: v as u64, ord: ord(o), ord_fail: 0, ok: true, locked: false });
    v
}


// ---- contract stub of the crate's own AtomicF64::inc_by (modular verification of its callers) ----
pub fn contract_f64_inc_by(c: &crate::atomic64::AtomicF64, delta: f64) {
    push(Ev { kind: ADD_F64, cell: crate::__vsup::addr_of(c), a: delta.to_bits(), b: 0, ret: 0, ord: 0, ord_fail: 0, ok: true, locked: false });
}
/// exactly one event since `from`, and it is the contract-level float add of `delta` on `cell`
pub fn is_single_f64_add(from: usize, cell: usize, delta: f64) -> bool {
    n() == from + 1 && ev(from).kind == ADD_F64 && ev(from).cell == cell && ev(from).a == delta.to_bits()
}
