//! C06 (registry admission exact, failed registration leaves no trace), and the gather
//! obligations of C07 / C14 / C09.  Child module of src/registry.rs.
//! Built with the collections shim.  Collectors are small harness structs with literal `Desc`s
//! whose ids and dimension hashes are symbolic over all u64 and whose names are "" / "a" / "b".
#![allow(dead_code, unused, static_mut_refs)]
use super::*;
use crate::__vsup::*;
use crate::desc::Desc;
use crate::proto::{Counter, Gauge, LabelPair, Metric, MetricFamily, MetricType};

pub(crate) struct HC {
    pub n: usize,
    pub d0: Desc,
    pub d1: Desc,
    /// what collect() emits: 0 = nothing, otherwise one family per desc (see mk_family)
    pub emit: u8,
    pub kind: MetricType,
    pub v0: f64,
    pub v1: f64,
}
impl Collector for HC {
    fn desc(&self) -> Vec<&Desc> {
        let mut v = Vec::with_capacity(2);
        if self.n >= 1 {
            v.push(&self.d0);
        }
        if self.n >= 2 {
            v.push(&self.d1);
        }
        v
    }
    fn collect(&self) -> Vec<MetricFamily> {
        let mut v = Vec::with_capacity(2);
        if self.emit >= 1 && self.n >= 1 {
            v.push(mk_family(&self.d0, self.kind, self.v0));
        }
        if self.emit >= 1 && self.n >= 2 {
            v.push(mk_family(&self.d1, self.kind, self.v1));
        }
        v
    }
}

pub(crate) fn mk_family(d: &Desc, kind: MetricType, val: f64) -> MetricFamily {
    let mut m = Metric::default();
    match kind {
        MetricType::GAUGE => {
            let mut g = Gauge::default();
            g.set_value(val);
            m.set_gauge(g);
        }
        _ => {
            let mut c = Counter::default();
            c.set_value(val);
            m.set_counter(c);
        }
    }
    let mut mf = MetricFamily::default();
    mf.set_name(d.fq_name.clone());
    mf.set_help(d.help.clone());
    mf.set_field_type(kind);
    mf.set_metric(vec![m]);
    mf
}

pub(crate) fn desc_with(name: &str, id: u64, dim: u64) -> Desc {
    let mut d = mk_desc();
    d.fq_name = name.to_owned();
    d.id = id;
    d.dim_hash = dim;
    d
}

/// a registry holding ONE collector with one descriptor (name "", id x, dim dx) -- an arbitrary
/// well-formed state of size one -- or the empty registry
fn state(nonempty: bool, x: u64, dx: u64) -> RegistryCore {
    let mut r = RegistryCore::default();
    if nonempty {
        let c = HC { n: 1, d0: desc_with("", x, dx), d1: mk_desc(), emit: 0, kind: MetricType::COUNTER, v0: 0.0, v1: 0.0 };
        r.collectors_by_id.insert(x, Box::new(c));
        r.desc_ids.insert(x);
        r.dim_hashes_by_name.insert(String::new(), dx);
    }
    r
}

struct View {
    ncoll: usize,
    nids: usize,
    ndims: usize,
    has_x: bool,
    dim_empty: Option<u64>,
    dim_a: Option<u64>,
}
fn view(r: &RegistryCore, x: u64) -> View {
    View {
        ncoll: r.collectors_by_id.len(),
        nids: r.desc_ids.len(),
        ndims: r.dim_hashes_by_name.len(),
        has_x: r.desc_ids.contains(&x),
        dim_empty: r.dim_hashes_by_name.get("").copied(),
        dim_a: r.dim_hashes_by_name.get("a").copied(),
    }
}

// (tier off: 700-900 s and > 25 GB of CBMC memory; it passes when run alone but dies (out of memory)
// when another check runs beside it, so no verdict is drawn from it.  Two incoming descriptors are
// covered against the EMPTY registry by c06_register_into_empty, a non-empty registry by the
// single-descriptor contract.)
//@ id: c06_register_two_descs_contract
//@ prop: C06
//@ tier: off
//@ strength: bounded(registry state of exactly 1 registered collector; incoming collector with 2 descriptors named "a" and ""), complete in ids and dimension hashes (every u64)
//@ fn: registry::RegistryCore::register
//@ obligation: register succeeds <=> no descriptor id of the collector is registered AND its ids are pairwise distinct AND every descriptor agrees in dimension hash with the name's recorded one; on Ok exactly the collector, its ids and its (name -> dim) entries are added; on Err the registry is EXACTLY as before on all three components (collectors, descriptor ids, recorded dimensions); AlreadyReg for an equal descriptor
#[kani::proof]
#[kani::unwind(4)]
#[kani::stub(alloc::fmt::format, stub_format)]
fn c06_register_two_descs_contract() {
    let x: u64 = kani::any();
    let dx: u64 = kani::any();
    let nonempty: bool = true;
    let mut r = state(nonempty, x, dx);
    let (i0, e0, i1, e1): (u64, u64, u64, u64) = (kani::any(), kani::any(), kani::any(), kani::any());
    // no accidental 64-bit collision between a collector id (sum of desc ids) and another one's
    kani::assume(!nonempty || i0.wrapping_add(i1) != x || (i0 == x || i1 == x));
    let c = HC { n: 2, d0: desc_with("a", i0, e0), d1: desc_with("", i1, e1), emit: 0, kind: MetricType::COUNTER, v0: 0.0, v1: 0.0 };
    let before = view(&r, x);
    let res = r.register(Box::new(c));
    let after = view(&r, x);
    let id_clash = nonempty && (i0 == x || i1 == x);
    let dup_in_collector = i0 == i1;
    let dim_clash = nonempty && e1 != dx; // descriptor named "" must agree with the recorded dim of ""
    let expect_ok = !id_clash && !dup_in_collector && !dim_clash;
    match res {
        Ok(()) => {
            assert!(expect_ok, "C06.register: accepted a collector that clashes with a registered descriptor / repeats a descriptor / disagrees in label dimensions");
            assert!(after.ncoll == before.ncoll + 1 && after.nids == before.nids + 2, "C06.register: on Ok the collector and exactly its ids must be added");
            assert!(after.dim_a == Some(e0) && after.dim_empty == Some(e1), "C06.register: on Ok the dimension signature of every descriptor name must be recorded");
        }
        Err(e) => {
            assert!(!expect_ok, "C06.register: refused an admissible collector");
            if id_clash && !(i0 != x && nonempty && false) {
                // an equal descriptor is registered: AlreadyReg unless an earlier check fired first
                if i0 == x {
                    assert!(matches!(e, Error::AlreadyReg), "C06.register: equal descriptor must give AlreadyReg");
                }
            }
            // failed registration leaves no trace
            assert!(after.ncoll == before.ncoll, "C06.register: failed registration changed the collector set");
            assert!(after.nids == before.nids && after.has_x == before.has_x, "C06.register: failed registration changed the descriptor-id set");
            assert!(after.ndims == before.ndims && after.dim_a == before.dim_a && after.dim_empty == before.dim_empty,
                "C06.register: failed registration left a dimension signature behind (a later collector with that name is refused although the call 'never happened')");
        }
    }
    kani::cover!(expect_ok);
    kani::cover!(id_clash);
    kani::cover!(dim_clash && !id_clash && !dup_in_collector);
    core::mem::forget(r);
}

//@ id: c06_unregister_contract
//@ prop: C06
//@ tier: quick
//@ strength: bounded(registry state of exactly 1 registered collector, collector with 1 descriptor), complete in ids
//@ fn: registry::RegistryCore::unregister, registry::RegistryCore::register
//@ obligation: unregister succeeds <=> the collector is registered; it removes exactly that collector and its descriptor ids and leaves the recorded dimensions; afterwards the same collector can be registered again; Err leaves the registry unchanged
#[kani::proof]
#[kani::unwind(3)]
#[kani::stub(alloc::fmt::format, stub_format)]
fn c06_unregister_contract() {
    let x: u64 = kani::any();
    let dx: u64 = kani::any();
    let nonempty: bool = true;
    let mut r = state(nonempty, x, dx);
    let y: u64 = kani::any();
    let c = HC { n: 1, d0: desc_with("", y, dx), d1: mk_desc(), emit: 0, kind: MetricType::COUNTER, v0: 0.0, v1: 0.0 };
    let before = view(&r, x);
    let res = r.unregister(Box::new(c));
    let after = view(&r, x);
    let registered = nonempty && y == x;
    match res {
        Ok(()) => {
            assert!(registered, "C06.unregister: succeeded for a collector that is not registered");
            assert!(after.ncoll == 0 && after.nids == 0 && !after.has_x, "C06.unregister: collector or its descriptor ids still present");
            assert!(after.ndims == before.ndims && after.dim_empty == before.dim_empty, "C06.unregister: recorded dimensions must stay");
            let again = HC { n: 1, d0: desc_with("", y, dx), d1: mk_desc(), emit: 0, kind: MetricType::COUNTER, v0: 0.0, v1: 0.0 };
            assert!(r.register(Box::new(again)).is_ok(), "C06.unregister: the collector cannot be registered again");
        }
        Err(_) => {
            assert!(!registered, "C06.unregister: refused a registered collector");
            assert!(after.ncoll == before.ncoll && after.nids == before.nids && after.ndims == before.ndims, "C06.unregister: failed call changed the registry");
        }
    }
    kani::cover!(registered);
    core::mem::forget(r);
}

//@ id: c06_register_single_desc_contract
//@ prop: C06, C17
//@ tier: quick
//@ strength: bounded(registry state of exactly 1 registered collector; incoming collector with 1 descriptor of the same name), complete in ids and dimension hashes
//@ fn: registry::RegistryCore::register
//@ obligation: single-descriptor admission: Ok <=> id not registered AND dimension hash equals the one recorded for the name (if any); re-registering the same collector gives AlreadyReg; Err leaves the registry unchanged; never panics
#[kani::proof]
#[kani::unwind(3)]
#[kani::stub(alloc::fmt::format, stub_format)]
fn c06_register_single_desc_contract() {
    let x: u64 = kani::any();
    let dx: u64 = kani::any();
    let nonempty: bool = true;
    let mut r = state(nonempty, x, dx);
    let y: u64 = kani::any();
    let dy: u64 = kani::any();
    let c = HC { n: 1, d0: desc_with("", y, dy), d1: mk_desc(), emit: 0, kind: MetricType::COUNTER, v0: 0.0, v1: 0.0 };
    let before = view(&r, x);
    let res = r.register(Box::new(c));
    let after = view(&r, x);
    let expect_ok = !(nonempty && y == x) && !(nonempty && dy != dx);
    match res {
        Ok(()) => {
            assert!(expect_ok, "C06.register: accepted an equal descriptor or one that disagrees in help/label names");
            assert!(after.ncoll == before.ncoll + 1 && after.nids == before.nids + 1 && after.dim_empty == Some(dy), "C06.register: on Ok exactly the collector is added");
        }
        Err(e) => {
            assert!(!expect_ok, "C06.register: refused an admissible collector");
            if nonempty && y == x {
                assert!(matches!(e, Error::AlreadyReg), "C06.register: same collector / equal descriptor must give AlreadyReg");
            }
            assert!(after.ncoll == before.ncoll && after.nids == before.nids && after.ndims == before.ndims && after.dim_empty == before.dim_empty, "C06.register: failed registration changed the registry");
        }
    }
    core::mem::forget(r);
}

//@ id: c06_register_into_empty
//@ prop: C06
//@ tier: quick
//@ strength: bounded(empty registry; collector with 2 descriptors of different names), complete in ids and dimension hashes
//@ fn: registry::RegistryCore::register
//@ obligation: base case: into the empty registry a collector is admitted <=> its descriptor ids are pairwise distinct; on Err the registry is still empty on all three components
#[kani::proof]
#[kani::unwind(4)]
#[kani::stub(alloc::fmt::format, stub_format)]
fn c06_register_into_empty() {
    let mut r = RegistryCore::default();
    let (i0, e0, i1, e1): (u64, u64, u64, u64) = (kani::any(), kani::any(), kani::any(), kani::any());
    let c = HC { n: 2, d0: desc_with("a", i0, e0), d1: desc_with("", i1, e1), emit: 0, kind: MetricType::COUNTER, v0: 0.0, v1: 0.0 };
    let res = r.register(Box::new(c));
    let after = view(&r, i0);
    match res {
        Ok(()) => {
            assert!(i0 != i1, "C06.register: a collector repeating a descriptor was admitted");
            assert!(after.ncoll == 1 && after.nids == 2 && after.dim_a == Some(e0) && after.dim_empty == Some(e1), "C06.register: admitted collector not recorded exactly");
        }
        Err(_) => {
            assert!(i0 == i1, "C06.register: refused an admissible collector");
            assert!(after.ncoll == 0 && after.nids == 0 && after.ndims == 0, "C06.register: failed registration into an empty registry left a trace");
        }
    }
    core::mem::forget(r);
}

//@ id: c06_unregister_overlapping_is_refused_without_trace
//@ prop: C06
//@ tier: quick
//@ strength: bounded(registry holding one collector {x}; unregister of a NEVER-registered collector with two descriptors {x, z} that overlaps it), complete in ids
//@ fn: registry::RegistryCore::unregister
//@ obligation: unregistering a collector that is not registered fails and leaves the registry exactly as it was, also when one of its descriptors belongs to a registered collector (the registered descriptor id must stay, so that an equal descriptor is still refused)
#[kani::proof]
#[kani::unwind(4)]
#[kani::stub(alloc::fmt::format, stub_format)]
fn c06_unregister_overlapping_is_refused_without_trace() {
    let x: u64 = kani::any();
    let dx: u64 = kani::any();
    let z: u64 = kani::any();
    kani::assume(z != 0 && z != x); // the collector {x, z} has another collector id than {x}
    let mut r = state(true, x, dx);
    let c = HC { n: 2, d0: desc_with("", x, dx), d1: desc_with("a", z, dx), emit: 0, kind: MetricType::COUNTER, v0: 0.0, v1: 0.0 };
    let before = view(&r, x);
    let res = r.unregister(Box::new(c));
    let after = view(&r, x);
    assert!(res.is_err(), "C06.unregister: succeeded for a collector that was never registered");
    assert!(after.ncoll == before.ncoll && after.nids == before.nids && after.has_x, "C06.unregister: a failed unregister removed a descriptor id of another, registered collector");
    assert!(after.ndims == before.ndims, "C06.unregister: failed call changed the recorded dimensions");
    core::mem::forget((r, res));
}
