//! C02 (and the schedule half of C03/C12) — per-thread protocol-step contracts of the lock-free
//! two-shard histogram under ARBITRARY interference.  Child module of src/histogram.rs.
//! std atomics are replaced by the environment model (venv.rs); AtomicF64::inc_by is replaced by
//! its proved contract (one atomic float add event).
//!
//! These are the guarantees G-obs / G-col / G-get of DESIGN.md section 5 C02.  They are
//! NECESSARY conditions of the hand-off protocol argued in the code comments; that they are
//! SUFFICIENT for "every snapshot is one consistent cut" is the protocol meta-argument (A3), which
//! is not machine-checked here.
#![allow(dead_code, unused)]
use super::__v_hist_c08::{mk_core, mk_local, spec_first_fit, spec_strictly_increasing};
use super::*;
use crate::__venv as env;
use crate::__vsup::*;

fn cell_u(a: &AtomicU64) -> usize {
    addr_of(a)
}

fn any_inc_bounds<const B: usize>() -> [f64; B] {
    let b: [f64; B] = kani::any();
    kani::assume(spec_strictly_increasing(&b));
    b
}

fn g_obs<const B: usize>() {
    let bounds = any_inc_bounds::<B>();
    let core = mk_core(bounds.to_vec());
    env::reset(0);
    env::watch_mutex(&core.collect_lock);
    let v: f64 = kani::any();
    core.observe(v);
    let n = env::n();
    assert!(n >= 3, "C02.G-obs: fewer than claim + sum + publish steps");
    // 1. claim: ONE fetch_add(1) on shard_and_count with at least Acquire
    let e0 = env::ev(0);
    assert!(e0.kind == env::FADD && e0.cell == env::addr_u(&core.shard_and_count.inner) && e0.a == 1, "C02.G-obs: first step is not fetch_add(1) on shard_and_count");
    assert!(env::is_acq(e0.ord), "C02.G-obs: the claim is weaker than Acquire");
    let s = (e0.ret >> 63) as usize; // the shard the environment said is hot
    let shard = &core.shards[s];
    // 2. data: at most one bucket cell, chosen by first fit, then the sum -- all on shard s
    let ff = spec_first_fit(&bounds, v);
    let mut idx = 1;
    if let Some(i) = ff {
        let e = env::ev(idx);
        assert!(e.kind == env::FADD && e.cell == cell_u(&shard.buckets[i]) && e.a == 1, "C02.G-obs: bucket step is not fetch_add(1) on the first-fit bucket of the claimed shard");
        idx += 1;
    }
    let e = env::ev(idx);
    assert!(e.kind == env::ADD_F64 && e.cell == addr_of(&shard.sum) && e.a == v.to_bits(), "C02.G-obs: sum step is not one atomic add of v on the claimed shard's sum");
    idx += 1;
    // 3. publish: LAST step is fetch_add(1) on the claimed shard's count with at least Release
    let e = env::ev(idx);
    assert!(e.kind == env::FADD && e.cell == cell_u(&shard.count) && e.a == 1, "C02.G-obs: publish step is not fetch_add(1) on the claimed shard's count");
    assert!(env::is_rel(e.ord), "C02.G-obs: the publish is weaker than Release");
    assert!(idx + 1 == n, "C02.G-obs: atomic steps after the publish (or extra steps)");
    // observers never take the collect lock
    let mut i = 0;
    while i < n {
        assert!(!env::ev(i).locked, "C02.G-obs: observe holds the collect lock");
        i += 1;
    }
}

//@ id: c02_g_obs_b3
//@ prop: C02, C03
//@ tier: quick
//@ strength: bounded(B=3 buckets), complete in values and interference (every value read at every atomic step is arbitrary)
//@ fn: histogram::HistogramCore::observe, histogram::ShardAndCount::inc, histogram::ShardAndCount::inc_by, histogram::ShardAndCount::split_shard_index_and_count
//@ obligation: G-obs: observe(v) = [fetch_add(1, >=Acquire) on shard_and_count returning (s,_)] ; [fetch_add(1) on shards[s].buckets[first-fit(v)] iff it exists] ; [one atomic add of v on shards[s].sum] ; LAST [fetch_add(1, >=Release) on shards[s].count]; no other step, never the other shard, never the lock
#[kani::proof]
#[kani::unwind(6)]
#[kani::stub(std::sync::atomic::Atomic::<u64>::load, env::env_load)]
#[kani::stub(std::sync::atomic::Atomic::<u64>::compare_exchange_weak, env::env_cas_weak)]
#[kani::stub(std::sync::atomic::Atomic::<u64>::store, env::env_store)]
#[kani::stub(std::sync::atomic::Atomic::<u64>::fetch_add, env::env_fetch_add)]
#[kani::stub(std::sync::atomic::Atomic::<u64>::fetch_sub, env::env_fetch_sub)]
#[kani::stub(std::sync::atomic::Atomic::<u64>::swap, env::env_swap)]
#[kani::stub(<crate::atomic64::AtomicF64 as crate::atomic64::Atomic>::inc_by, env::contract_f64_inc_by)]
fn c02_g_obs_b3() {
    g_obs::<3>();
}

fn g_flush<const B: usize>() {
    let bounds = any_inc_bounds::<B>();
    let h = Histogram { core: Arc::new(mk_core(bounds.to_vec())) };
    let counts: [u64; B] = kani::any();
    let cnt: u64 = kani::any();
    let sum: f64 = kani::any();
    // well-formed local state: no observation => nothing pending (count is the number of observations)
    kani::assume(cnt != 0 || sum.to_bits() == 0);
    let mut local = mk_local(&h, counts.to_vec(), cnt, sum);
    env::reset(0);
    env::watch_mutex(&h.core.collect_lock);
    local.flush();
    let n = env::n();
    if cnt == 0 {
        assert!(n == 0, "C12.G-flush: an empty local histogram performed an atomic step");
    } else {
        let e0 = env::ev(0);
        assert!(e0.kind == env::FADD && e0.cell == env::addr_u(&h.core.shard_and_count.inner) && e0.a == cnt, "C02.G-flush: first step is not fetch_add(batch count) on shard_and_count");
        assert!(env::is_acq(e0.ord), "C02.G-flush: the claim is weaker than Acquire");
        let s = (e0.ret >> 63) as usize;
        let shard = &h.core.shards[s];
        let mut idx = 1;
        let mut i = 0;
        while i < B {
            if counts[i] > 0 {
                let e = env::ev(idx);
                assert!(e.kind == env::FADD && e.cell == cell_u(&shard.buckets[i]) && e.a == counts[i], "C02.G-flush: bucket step is not fetch_add(local bucket count) on the claimed shard");
                idx += 1;
            }
            i += 1;
        }
        let e = env::ev(idx);
        assert!(e.kind == env::ADD_F64 && e.cell == addr_of(&shard.sum) && e.a == sum.to_bits(), "C02.G-flush: sum step is not one atomic add of the batch sum on the claimed shard");
        idx += 1;
        let e = env::ev(idx);
        assert!(e.kind == env::FADD && e.cell == cell_u(&shard.count) && e.a == cnt, "C02.G-flush: publish step is not fetch_add(batch count) on the claimed shard's count (the batch must be published in ONE step with the claimed amount)");
        assert!(env::is_rel(e.ord), "C02.G-flush: the publish is weaker than Release");
        assert!(idx + 1 == n, "C02.G-flush: atomic steps after the publish (or extra steps)");
    }
    assert!(local.count == 0 && local.sum.to_bits() == 0, "C12.G-flush: local side not cleared");
    let n1 = env::n();
    local.flush();
    assert!(env::n() == n1, "C12.G-flush: second flush performed an atomic step");
    kani::cover!(true);
    core::mem::forget(local);
}

//@ id: c02_g_flush_b3
//@ prop: C02, C03, C12
//@ tier: quick
//@ strength: bounded(B=3 buckets), complete in values and interference
//@ fn: histogram::LocalHistogramCore::flush
//@ obligation: G-flush: a non-empty batch is handed over as [fetch_add(count, >=Acquire) on shard_and_count -> s] ; [fetch_add(counts[i]) on shards[s].buckets[i] for every non-zero local bucket] ; [one atomic add of the batch sum] ; LAST [fetch_add(count, >=Release) on shards[s].count] -- one claim and one publish of the same amount; an empty batch and a second flush perform no step
#[kani::proof]
#[kani::unwind(6)]
#[kani::stub(std::sync::atomic::Atomic::<u64>::load, env::env_load)]
#[kani::stub(std::sync::atomic::Atomic::<u64>::compare_exchange_weak, env::env_cas_weak)]
#[kani::stub(std::sync::atomic::Atomic::<u64>::store, env::env_store)]
#[kani::stub(std::sync::atomic::Atomic::<u64>::fetch_add, env::env_fetch_add)]
#[kani::stub(std::sync::atomic::Atomic::<u64>::fetch_sub, env::env_fetch_sub)]
#[kani::stub(std::sync::atomic::Atomic::<u64>::swap, env::env_swap)]
#[kani::stub(<crate::atomic64::AtomicF64 as crate::atomic64::Atomic>::inc_by, env::contract_f64_inc_by)]
fn c02_g_flush_b3() {
    g_flush::<3>();
}

fn g_col<const B: usize>(k: u32) {
    let bounds = any_inc_bounds::<B>();
    let core = mk_core(bounds.to_vec());
    env::reset(k);
    env::watch_mutex(&core.collect_lock);
    // rely: bucket cells hold counts < 2^60 (their sum cannot overflow the cumulative count)
    env::rely_counts_below(1u64 << 60, addr_of(&core.shards[0].sum), addr_of(&core.shards[1].sum));
    let snap = core.proto();
    let n = env::n();
    // 1. flip: first step, fetch_add(1<<63) AcqRel on shard_and_count
    let e0 = env::ev(0);
    assert!(e0.kind == env::FADD && e0.cell == env::addr_u(&core.shard_and_count.inner) && e0.a == (1u64 << 63), "C02.G-col: first step is not the flip fetch_add(1<<63) on shard_and_count");
    assert!(env::is_acq(e0.ord) && env::is_rel(e0.ord), "C02.G-col: the flip is weaker than AcqRel");
    let c = (e0.ret >> 63) as usize; // cold = previously hot shard
    let cnt = e0.ret & ((1u64 << 63) - 1);
    let cold = &core.shards[c];
    let hot = &core.shards[1 - c];
    // 2. wait: only compare-exchange(expected = claimed count, new = 0, success >= Acquire) on the
    //    cold shard's count; the loop is left at the FIRST success and by nothing else
    let mut idx = 1;
    loop {
        assert!(idx < n, "C02.G-col: wait loop left without a successful compare-exchange");
        let e = env::ev(idx);
        assert!(e.kind == env::CAS && e.cell == cell_u(&cold.count), "C02.G-col: the collector waits on something other than the cold shard's count");
        assert!(e.a == cnt && e.b == 0, "C02.G-col: wait condition is not 'cold count == count claimed at the flip' (or the reset value is not 0)");
        assert!(env::is_acq(e.ord), "C02.G-col: successful hand-off is weaker than Acquire");
        idx += 1;
        if e.ok {
            break;
        }
    }
    // 3. drain: swap(0.0) on cold sum
    let es = env::ev(idx);
    assert!(es.kind == env::SWAP && es.cell == addr_of(&cold.sum) && es.a == 0f64.to_bits(), "C02.G-col: cold sum is not drained by one swap(0.0)");
    let drained_sum = es.ret;
    idx += 1;
    let mut acc: u64 = 0;
    let bs = snap.get_bucket();
    assert!(bs.len() == B, "C02.G-col: snapshot bucket list length");
    let mut i = 0;
    while i < B {
        let ec = env::ev(idx);
        assert!(ec.kind == env::SWAP && ec.cell == cell_u(&cold.buckets[i]) && ec.a == 0, "C02.G-col: cold bucket is not drained by one swap(0)");
        let eh = env::ev(idx + 1);
        assert!(eh.kind == env::FADD && eh.cell == cell_u(&hot.buckets[i]) && eh.a == ec.ret, "C02.G-col: drained bucket count is not added to the hot shard's bucket");
        acc = acc.wrapping_add(ec.ret);
        assert!(bs[i].cumulative_count() == acc, "C02.G-col: snapshot bucket is not the prefix sum of the drained buckets");
        idx += 2;
        i += 1;
    }
    let e = env::ev(idx);
    assert!(e.kind == env::FADD && e.cell == cell_u(&hot.count) && e.a == cnt, "C02.G-col: claimed count is not added to the hot shard's count");
    let e = env::ev(idx + 1);
    assert!(e.kind == env::ADD_F64 && e.cell == addr_of(&hot.sum) && e.a == drained_sum, "C02.G-col: drained sum is not added to the hot shard's sum");
    assert!(idx + 2 == n, "C02.G-col: extra atomic steps");
    // 4. the snapshot is (claimed count, drained sum, prefix sums)
    assert!(snap.get_sample_count() == cnt, "C02.G-col: snapshot count is not the count claimed at the flip");
    assert!(snap.get_sample_sum().to_bits() == drained_sum, "C02.G-col: snapshot sum is not the drained sum");
    // 5. every step happens under the collect lock, which is released afterwards
    let mut i = 0;
    while i < n {
        assert!(env::ev(i).locked, "C02.G-col: an atomic step of the collector happens outside the collect lock");
        i += 1;
    }
    assert!(core.collect_lock.try_lock().is_ok(), "C02.G-col: collect lock not released");
    kani::cover!(env::cas_fails() == k);
}

//@ id: c02_g_col_b2
//@ prop: C02, C03
//@ tier: quick
//@ strength: bounded(B=2 buckets; wait-loop retries K=1 with unwinding assertion), complete in values and interference
//@ fn: histogram::HistogramCore::proto, histogram::ShardAndCount::flip
//@ obligation: G-col: under the collect lock: ONE flip fetch_add(1<<63, AcqRel) -> (c, n); the wait loop consists only of compare-exchange(shards[c].count: n -> 0, success >= Acquire) and is left at the first success (it waits for nothing else); then swap-drains of shards[c] and adds to shards[1-c] only; snapshot = (n, drained sum, prefix sums of drained buckets); lock released
#[kani::proof]
#[kani::unwind(13)]
#[kani::stub(std::sync::atomic::Atomic::<u64>::load, env::env_load)]
#[kani::stub(std::sync::atomic::Atomic::<u64>::compare_exchange_weak, env::env_cas_weak)]
#[kani::stub(std::sync::atomic::Atomic::<u64>::store, env::env_store)]
#[kani::stub(std::sync::atomic::Atomic::<u64>::fetch_add, env::env_fetch_add)]
#[kani::stub(std::sync::atomic::Atomic::<u64>::fetch_sub, env::env_fetch_sub)]
#[kani::stub(std::sync::atomic::Atomic::<u64>::swap, env::env_swap)]
#[kani::stub(<crate::atomic64::AtomicF64 as crate::atomic64::Atomic>::inc_by, env::contract_f64_inc_by)]
fn c02_g_col_b2() {
    g_col::<2>(1);
}

//@ id: c02_g_col_b3_k3
//@ prop: C02, C03
//@ tier: thorough
//@ strength: bounded(B=3 buckets; wait-loop retries K=3), complete in values and interference
//@ fn: histogram::HistogramCore::proto
//@ obligation: G-col with three buckets and up to three failed hand-off attempts
#[kani::proof]
#[kani::unwind(18)]
#[kani::stub(std::sync::atomic::Atomic::<u64>::load, env::env_load)]
#[kani::stub(std::sync::atomic::Atomic::<u64>::compare_exchange_weak, env::env_cas_weak)]
#[kani::stub(std::sync::atomic::Atomic::<u64>::store, env::env_store)]
#[kani::stub(std::sync::atomic::Atomic::<u64>::fetch_add, env::env_fetch_add)]
#[kani::stub(std::sync::atomic::Atomic::<u64>::fetch_sub, env::env_fetch_sub)]
#[kani::stub(std::sync::atomic::Atomic::<u64>::swap, env::env_swap)]
#[kani::stub(<crate::atomic64::AtomicF64 as crate::atomic64::Atomic>::inc_by, env::contract_f64_inc_by)]
fn c02_g_col_b3_k3() {
    g_col::<3>(3);
}

//@ id: c02_g_get
//@ prop: C02, C03
//@ tier: quick
//@ strength: bounded(B=1 bucket), complete in values and interference
//@ fn: histogram::HistogramCore::sample_sum, histogram::HistogramCore::sample_count, histogram::ShardAndCount::get
//@ obligation: G-get: sample_count is exactly one load of shard_and_count and returns its low 63 bits; sample_sum holds the collect lock while it loads shard_and_count and then the sum of the shard named by that load (the hot one), returns the loaded bits, and releases the lock
#[kani::proof]
#[kani::unwind(4)]
#[kani::stub(std::sync::atomic::Atomic::<u64>::load, env::env_load)]
#[kani::stub(std::sync::atomic::Atomic::<u64>::compare_exchange_weak, env::env_cas_weak)]
#[kani::stub(std::sync::atomic::Atomic::<u64>::store, env::env_store)]
#[kani::stub(std::sync::atomic::Atomic::<u64>::fetch_add, env::env_fetch_add)]
#[kani::stub(std::sync::atomic::Atomic::<u64>::fetch_sub, env::env_fetch_sub)]
#[kani::stub(std::sync::atomic::Atomic::<u64>::swap, env::env_swap)]
fn c02_g_get() {
    let core = mk_core(vec![1.0]);
    env::reset(0);
    env::watch_mutex(&core.collect_lock);
    let c = core.sample_count();
    assert!(env::n() == 1, "C02.G-get: sample_count is not exactly one atomic step");
    let e = env::ev(0);
    assert!(e.kind == env::LOAD && e.cell == env::addr_u(&core.shard_and_count.inner), "C02.G-get: sample_count does not load shard_and_count");
    assert!(c == e.ret & ((1u64 << 63) - 1), "C02.G-get: sample_count is not the low 63 bits of the loaded word");
    let s = core.sample_sum();
    assert!(env::n() == 3, "C02.G-get: sample_sum is not exactly two atomic steps");
    let e1 = env::ev(1);
    let e2 = env::ev(2);
    assert!(e1.kind == env::LOAD && e1.cell == env::addr_u(&core.shard_and_count.inner), "C02.G-get: sample_sum does not first load shard_and_count");
    let hot = (e1.ret >> 63) as usize;
    assert!(e2.kind == env::LOAD && e2.cell == addr_of(&core.shards[hot].sum), "C02.G-get: sample_sum does not read the sum of the shard named hot by its own load");
    assert!(s.to_bits() == e2.ret, "C02.G-get: sample_sum does not return the loaded value");
    assert!(e1.locked && e2.locked, "C02.G-get: sample_sum reads outside the collect lock");
    assert!(core.collect_lock.try_lock().is_ok(), "C02.G-get: collect lock not released");
}

//@ id: c02_split_shard_index_and_count
//@ prop: C02, C03
//@ tier: quick
//@ strength: complete (all 2^64 words)
//@ fn: histogram::ShardAndCount::split_shard_index_and_count, histogram::ShardIndex::inverse
//@ obligation: the top bit selects the shard, the low 63 bits are the count, the pair determines the word; inverse swaps First/Second; usize::from(ShardIndex) is 0/1
#[kani::proof]
#[kani::unwind(2)]
fn c02_split_shard_index_and_count() {
    let n: u64 = kani::any();
    let (s, c) = ShardAndCount::split_shard_index_and_count(n);
    let si = usize::from(s);
    assert!(si == (n >> 63) as usize, "C02.split: shard index is not the top bit");
    assert!(c == n & 0x7fff_ffff_ffff_ffff, "C02.split: count is not the low 63 bits");
    assert!(((si as u64) << 63) | c == n, "C02.split: not a bijection");
    assert!(usize::from(s.inverse()) == 1 - si, "C02.inverse");
    assert!(s as usize == si, "C02: `as usize` cast of ShardIndex disagrees with From (used by sample_sum / flush)");
}
