//! C09 (name validation) and C15 (descriptor identity) — child module of src/desc.rs.
//! Built with the collections shim (nondeterministic HashMap iteration order).
#![allow(dead_code, unused)]
use super::*;
use crate::__vrec as rec;
use crate::__vsup::*;

// ---------------------------------------------------------------------------------------------
// per-char classifiers: genuine Kani function contracts (attributes inserted on the real fns by
// the injector, see vlib/plan.py CONTRACTS) proved for EVERY char.

//@ id: c09_contract_charset_without_colon
//@ prop: C09
//@ tier: quick
//@ strength: complete (every char, loop-free)
//@ fn: desc::matches_charset_without_colon
//@ obligation: kani::ensures on the real fn: result == c in [a-zA-Z_] (ASCII only), for all of Unicode
#[kani::proof_for_contract(super::matches_charset_without_colon)]
#[kani::unwind(2)]
fn c09_contract_charset_without_colon() {
    let c: char = kani::any();
    let _ = matches_charset_without_colon(c);
}

//@ id: c09_contract_charset_with_colon
//@ prop: C09
//@ tier: quick
//@ strength: complete (every char, loop-free)
//@ fn: desc::matches_charset_with_colon
//@ obligation: kani::ensures on the real fn: result == c in [a-zA-Z_:] (ASCII only), for all of Unicode
#[kani::proof_for_contract(super::matches_charset_with_colon)]
#[kani::unwind(2)]
fn c09_contract_charset_with_colon() {
    let c: char = kani::any();
    let _ = matches_charset_with_colon(c);
}

//@ id: c09_ascii_digit_class
//@ prop: C09
//@ tier: quick
//@ strength: complete (every char)
//@ fn: char::is_ascii_digit
//@ obligation: the digit class used for non-leading characters is exactly '0'..='9' (no Unicode digits)
#[kani::proof]
#[kani::unwind(2)]
fn c09_ascii_digit_class() {
    let c: char = kani::any();
    assert!(c.is_ascii_digit() == ('0' <= c && c <= '9'), "C09: digit class");
}

// ---------------------------------------------------------------------------------------------
// identifiers on "hole strings": ASCII? . any char? . ASCII? . ASCII?

fn spec_head(c: char, colon: bool) -> bool {
    ('a' <= c && c <= 'z') || ('A' <= c && c <= 'Z') || c == '_' || (colon && c == ':')
}
fn spec_tail(c: char, colon: bool) -> bool {
    spec_head(c, colon) || ('0' <= c && c <= '9')
}
/// regex ^[a-zA-Z_:][a-zA-Z0-9_:]*$ (colon=true) / ^[a-zA-Z_][a-zA-Z0-9_]*$ over a char list
fn spec_ident(cs: &[char], n: usize, colon: bool) -> bool {
    if n == 0 {
        return false;
    }
    if !spec_head(cs[0], colon) {
        return false;
    }
    let mut i = 1;
    while i < n {
        if !spec_tail(cs[i], colon) {
            return false;
        }
        i += 1;
    }
    true
}

/// builds the hole string into `buf`, returns (byte length, chars, number of chars)
fn hole_string(buf: &mut [u8; 8]) -> (usize, [char; 4], usize) {
    let mut cs = ['a'; 4];
    let mut n = 0usize;
    let mut len = 0usize;
    let a: u8 = kani::any();
    let has_a: bool = kani::any();
    if has_a {
        kani::assume(a < 0x80);
        buf[len] = a;
        len += 1;
        cs[n] = a as char;
        n += 1;
    }
    let has_c: bool = kani::any();
    if has_c {
        let c: char = kani::any();
        let l = c.encode_utf8(&mut buf[len..]).len();
        len += l;
        cs[n] = c;
        n += 1;
    }
    let b: u8 = kani::any();
    let has_b: bool = kani::any();
    if has_b {
        kani::assume(b < 0x80);
        buf[len] = b;
        len += 1;
        cs[n] = b as char;
        n += 1;
    }
    let d: u8 = kani::any();
    let has_d: bool = kani::any();
    if has_d {
        kani::assume(d < 0x80);
        buf[len] = d;
        len += 1;
        cs[n] = d as char;
        n += 1;
    }
    (len, cs, n)
}

//@ id: c09_is_valid_metric_name_hole4
//@ prop: C09
//@ tier: quick
//@ strength: bounded(strings of <= 4 chars: ASCII? . any Unicode char? . ASCII? . ASCII?), complete in character values
//@ fn: desc::is_valid_metric_name, desc::is_valid_ident
//@ obligation: is_valid_metric_name(s) <=> s matches ^[a-zA-Z_:][a-zA-Z0-9_:]*$ (empty, leading digit, non-ASCII letters/digits rejected)
#[kani::proof]
#[kani::unwind(6)]
fn c09_is_valid_metric_name_hole4() {
    let mut buf = [0u8; 8];
    let (len, cs, n) = hole_string(&mut buf);
    let s = unsafe { core::str::from_utf8_unchecked(&buf[..len]) };
    assert!(is_valid_metric_name(s) == spec_ident(&cs, n, true), "C09: is_valid_metric_name disagrees with ^[a-zA-Z_:][a-zA-Z0-9_:]*$");
    kani::cover!(n == 4 && spec_ident(&cs, n, true));
}

//@ id: c09_is_valid_label_name_hole4
//@ prop: C09
//@ tier: quick
//@ strength: bounded(strings of <= 4 chars with one arbitrary Unicode char), complete in character values
//@ fn: desc::is_valid_label_name, desc::is_valid_ident
//@ obligation: is_valid_label_name(s) <=> s matches ^[a-zA-Z_][a-zA-Z0-9_]*$
#[kani::proof]
#[kani::unwind(6)]
fn c09_is_valid_label_name_hole4() {
    let mut buf = [0u8; 8];
    let (len, cs, n) = hole_string(&mut buf);
    let s = unsafe { core::str::from_utf8_unchecked(&buf[..len]) };
    assert!(is_valid_label_name(s) == spec_ident(&cs, n, false), "C09: is_valid_label_name disagrees with ^[a-zA-Z_][a-zA-Z0-9_]*$");
    kani::cover!(n == 4 && spec_ident(&cs, n, false));
}

// ---------------------------------------------------------------------------------------------
// Desc::new acceptance

/// one-character ASCII name with a symbolic character (fixed length 1: string comparisons stay
/// cheap, and the character ranges over all of ASCII, valid and invalid)
fn any_name1() -> (String, u8) {
    let b: u8 = kani::any();
    kani::assume(b < 0x80);
    (unsafe { String::from_utf8_unchecked(vec![b]) }, b)
}
fn spec_label1(b: u8) -> bool {
    (b'a' <= b && b <= b'z') || (b'A' <= b && b <= b'Z') || b == b'_'
}

fn desc_new_accepts(nc: usize, nv: usize) {
    let (fq, fqb) = any_name1();
    let fq_empty: bool = kani::any();
    let fq = if fq_empty { String::new() } else { fq };
    let fq_ok = !fq_empty && (spec_label1(fqb) || fqb == b':');
    let help_empty: bool = kani::any();
    let help = if help_empty { String::new() } else { "h".to_owned() };
    let (c0, c0b) = any_name1();
    let (c1, c1b) = any_name1();
    let (v0, v0b) = any_name1();
    let (v1, v1b) = any_name1();
    let mut consts: HashMap<String, String> = HashMap::new();
    if nc >= 1 {
        consts.insert(c0, "x".to_owned());
    }
    if nc >= 2 {
        kani::assume(c1b != c0b); // a map holds a const name once
        consts.insert(c1, "y".to_owned());
    }
    let mut vars: Vec<String> = Vec::new();
    if nv >= 1 {
        vars.push(v0);
    }
    if nv >= 2 {
        vars.push(v1);
    }
    let mut names_ok = true;
    if nc >= 1 && !spec_label1(c0b) { names_ok = false; }
    if nc >= 2 && !spec_label1(c1b) { names_ok = false; }
    if nv >= 1 && !spec_label1(v0b) { names_ok = false; }
    if nv >= 2 && !spec_label1(v1b) { names_ok = false; }
    let mut dup = false;
    if nv >= 2 && v0b == v1b { dup = true; }
    if nc >= 1 && nv >= 1 && c0b == v0b { dup = true; }
    if nc >= 1 && nv >= 2 && c0b == v1b { dup = true; }
    if nc >= 2 && nv >= 1 && c1b == v0b { dup = true; }
    if nc >= 2 && nv >= 2 && c1b == v1b { dup = true; }
    let expect_ok = !help_empty && fq_ok && names_ok && !dup;
    let r = Desc::new(fq, help, vars, consts);
    match r {
        Ok(_) => assert!(expect_ok, "C09.Desc::new: accepted although help is empty, or a name is invalid, or a label name occurs twice among const and variable labels"),
        Err(_) => assert!(!expect_ok, "C09.Desc::new: refused a well-formed descriptor"),
    }
    kani::cover!(expect_ok);
    kani::cover!(!expect_ok);
}

//@ id: c09_desc_new_accepts_c1v1
//@ prop: C09, C17
//@ tier: quick
//@ strength: bounded(1 const label, 1 variable label, one-character names over all of ASCII, fq_name empty or one character, help empty or not), every map iteration order
//@ fn: desc::Desc::new
//@ obligation: Desc::new returns Ok <=> help non-empty AND fq_name valid AND every const and variable label name valid AND no label name occurs twice among const and variable labels together; never panics
#[kani::proof]
#[kani::unwind(5)]
#[kani::stub(alloc::fmt::format, stub_format)]
fn c09_desc_new_accepts_c1v1() {
    desc_new_accepts(1, 1);
}

//@ id: c09_desc_new_accepts_c2v2
//@ prop: C09, C17
//@ tier: quick
//@ strength: bounded(2 const labels, 2 variable labels, one-character names over all of ASCII), every map iteration order
//@ fn: desc::Desc::new
//@ obligation: Desc::new returns Ok <=> help non-empty AND fq_name valid AND every label name valid AND no label name occurs twice among const and variable labels together; never panics
#[kani::proof]
#[kani::unwind(6)]
#[kani::stub(alloc::fmt::format, stub_format)]
fn c09_desc_new_accepts_c2v2() {
    desc_new_accepts(2, 2);
}

#[kani::proof]
#[kani::unwind(6)]
#[kani::stub(alloc::fmt::format, stub_format)]
fn tmp_concrete_probe() {
    let mut consts: HashMap<String, String> = HashMap::new();
    consts.insert("a".to_owned(), "x".to_owned());
    consts.insert("b".to_owned(), "y".to_owned());
    let r = Desc::new("m".to_owned(), "h".to_owned(), vec!["a".to_owned(), "c".to_owned()], consts);
    assert!(r.is_err());
}
