//! C09 (name validation) and C15 (descriptor identity) — child module of src/desc.rs.
//! Built with the collections shim (nondeterministic HashMap iteration order).
#![allow(dead_code, unused)]
use super::*;
use crate::__vrec as rec;
use crate::__vsup::*;

// ---------------------------------------------------------------------------------------------
// per-char classifiers: genuine Kani function contracts (attributes inserted on the real fns by
// the injector, see vlib/plan.py CONTRACTS) proved for EVERY char.

//@ id: c09_contract_charset_without_colon
//@ prop: C09
//@ tier: quick
//@ strength: complete (every char, loop-free)
//@ fn: desc::matches_charset_without_colon
//@ obligation: kani::ensures on the real fn: result == c in [a-zA-Z_] (ASCII only), for all of Unicode
#[kani::proof_for_contract(super::matches_charset_without_colon)]
#[kani::unwind(2)]
fn c09_contract_charset_without_colon() {
    let c: char = kani::any();
    let _ = matches_charset_without_colon(c);
}

//@ id: c09_contract_charset_with_colon
//@ prop: C09
//@ tier: quick
//@ strength: complete (every char, loop-free)
//@ fn: desc::matches_charset_with_colon
//@ obligation: kani::ensures on the real fn: result == c in [a-zA-Z_:] (ASCII only), for all of Unicode
#[kani::proof_for_contract(super::matches_charset_with_colon)]
#[kani::unwind(2)]
fn c09_contract_charset_with_colon() {
    let c: char = kani::any();
    let _ = matches_charset_with_colon(c);
}

//@ id: c09_ascii_digit_class
//@ prop: C09
//@ tier: quick
//@ strength: complete (every char)
//@ fn: char::is_ascii_digit
//@ obligation: the digit class used for non-leading characters is exactly '0'..='9' (no Unicode digits)
#[kani::proof]
#[kani::unwind(2)]
fn c09_ascii_digit_class() {
    let c: char = kani::any();
    assert!(c.is_ascii_digit() == ('0' <= c && c <= '9'), "C09: digit class");
}

// ---------------------------------------------------------------------------------------------
// identifiers on "hole strings": ASCII? . any char? . ASCII? . ASCII?

fn spec_head(c: char, colon: bool) -> bool {
    ('a' <= c && c <= 'z') || ('A' <= c && c <= 'Z') || c == '_' || (colon && c == ':')
}
fn spec_tail(c: char, colon: bool) -> bool {
    spec_head(c, colon) || ('0' <= c && c <= '9')
}
/// regex ^[a-zA-Z_:][a-zA-Z0-9_:]*$ (colon=true) / ^[a-zA-Z_][a-zA-Z0-9_]*$ over a char list
fn spec_ident(cs: &[char], n: usize, colon: bool) -> bool {
    if n == 0 {
        return false;
    }
    if !spec_head(cs[0], colon) {
        return false;
    }
    let mut i = 1;
    while i < n {
        if !spec_tail(cs[i], colon) {
            return false;
        }
        i += 1;
    }
    true
}

/// builds the hole string into `buf`, returns (byte length, chars, number of chars)
fn hole_string(buf: &mut [u8; 8]) -> (usize, [char; 4], usize) {
    let mut cs = ['a'; 4];
    let mut n = 0usize;
    let mut len = 0usize;
    let a: u8 = kani::any();
    let has_a: bool = kani::any();
    if has_a {
        kani::assume(a < 0x80);
        buf[len] = a;
        len += 1;
        cs[n] = a as char;
        n += 1;
    }
    let has_c: bool = kani::any();
    if has_c {
        let c: char = kani::any();
        let l = c.encode_utf8(&mut buf[len..]).len();
        len += l;
        cs[n] = c;
        n += 1;
    }
    let b: u8 = kani::any();
    let has_b: bool = kani::any();
    if has_b {
        kani::assume(b < 0x80);
        buf[len] = b;
        len += 1;
        cs[n] = b as char;
        n += 1;
    }
    let d: u8 = kani::any();
    let has_d: bool = kani::any();
    if has_d {
        kani::assume(d < 0x80);
        buf[len] = d;
        len += 1;
        cs[n] = d as char;
        n += 1;
    }
    (len, cs, n)
}

//@ id: c09_is_valid_metric_name_hole4
//@ prop: C09
//@ tier: quick
//@ strength: bounded(strings of <= 4 chars: ASCII? . any Unicode char? . ASCII? . ASCII?), complete in character values
//@ fn: desc::is_valid_metric_name, desc::is_valid_ident
//@ obligation: is_valid_metric_name(s) <=> s matches ^[a-zA-Z_:][a-zA-Z0-9_:]*$ (empty, leading digit, non-ASCII letters/digits rejected)
#[kani::proof]
#[kani::unwind(6)]
fn c09_is_valid_metric_name_hole4() {
    let mut buf = [0u8; 8];
    let (len, cs, n) = hole_string(&mut buf);
    let s = unsafe { core::str::from_utf8_unchecked(&buf[..len]) };
    assert!(is_valid_metric_name(s) == spec_ident(&cs, n, true), "C09: is_valid_metric_name disagrees with ^[a-zA-Z_:][a-zA-Z0-9_:]*$");
    kani::cover!(n == 4 && spec_ident(&cs, n, true));
}

//@ id: c09_is_valid_label_name_hole4
//@ prop: C09
//@ tier: quick
//@ strength: bounded(strings of <= 4 chars with one arbitrary Unicode char), complete in character values
//@ fn: desc::is_valid_label_name, desc::is_valid_ident
//@ obligation: is_valid_label_name(s) <=> s matches ^[a-zA-Z_][a-zA-Z0-9_]*$
#[kani::proof]
#[kani::unwind(6)]
fn c09_is_valid_label_name_hole4() {
    let mut buf = [0u8; 8];
    let (len, cs, n) = hole_string(&mut buf);
    let s = unsafe { core::str::from_utf8_unchecked(&buf[..len]) };
    assert!(is_valid_label_name(s) == spec_ident(&cs, n, false), "C09: is_valid_label_name disagrees with ^[a-zA-Z_][a-zA-Z0-9_]*$");
    kani::cover!(n == 4 && spec_ident(&cs, n, false));
}

// ---------------------------------------------------------------------------------------------
// Desc::new acceptance

// Desc::new: std's slice sort is replaced by its contract (vsup::stub_sort) and format! by its
// contract / the message stub; names are short concrete or one-character symbolic strings.

fn desc_scenario(fq: &str, help: &str, cname: Option<&str>, vname: Option<&str>) -> bool {
    let mut consts: HashMap<String, String> = HashMap::new();
    if let Some(c) = cname {
        consts.insert(c.to_owned(), "x".to_owned());
    }
    let mut vars: Vec<String> = Vec::with_capacity(2);
    if let Some(v) = vname {
        vars.push(v.to_owned());
    }
    let r = Desc::new(fq.to_owned(), help.to_owned(), vars, consts);
    let ok = r.is_ok();
    core::mem::forget(r);
    ok
}

//@ id: c09_desc_new_const_var_duplicate
//@ prop: C09
//@ tier: quick
//@ strength: bounded(enumerated: one concrete scenario -- const label "a" and variable label "a")
//@ fn: desc::Desc::new
//@ obligation: a label name that occurs both as a constant and as a variable label is rejected (otherwise every sample of the metric carries the label name twice)
#[kani::proof]
#[kani::unwind(4)]
#[kani::stub(alloc::fmt::format, stub_format)]
#[kani::stub(<[LabelPair]>::sort, stub_sort)]
fn c09_desc_new_const_var_duplicate() {
    assert!(!desc_scenario("m", "h", Some("a"), Some("a")), "C09.Desc::new: label name used both as const and as variable label accepted");
}

//@ id: c09_desc_new_accepts_wellformed
//@ prop: C09
//@ tier: quick
//@ strength: bounded(enumerated: one concrete scenario -- const label "a", variable label "b")
//@ fn: desc::Desc::new
//@ obligation: a well-formed descriptor (valid name, non-empty help, distinct valid label names) is accepted
#[kani::proof]
#[kani::unwind(4)]
#[kani::stub(alloc::fmt::format, stub_format)]
#[kani::stub(<[LabelPair]>::sort, stub_sort)]
fn c09_desc_new_accepts_wellformed() {
    assert!(desc_scenario("m", "h", Some("a"), Some("b")), "C09.Desc::new: well-formed descriptor refused");
}

//@ id: c09_desc_new_rejects_malformed
//@ prop: C09, C17
//@ tier: quick
//@ strength: bounded(enumerated: four concrete scenarios -- empty help, invalid metric name, invalid const label name, invalid variable label name)
//@ fn: desc::Desc::new
//@ obligation: empty help, an invalid fully-qualified name, an invalid const label name and an invalid variable label name are each rejected with Err (no panic)
#[kani::proof]
#[kani::unwind(4)]
#[kani::stub(alloc::fmt::format, stub_format)]
#[kani::stub(<[LabelPair]>::sort, stub_sort)]
fn c09_desc_new_rejects_malformed() {
    let which: u8 = kani::any();
    let ok = match which % 4 {
        0 => desc_scenario("m", "", None, None),
        1 => desc_scenario("1m", "h", None, None),
        2 => desc_scenario("m", "h", Some("9"), None),
        _ => desc_scenario("m", "h", None, Some("9")),
    };
    assert!(!ok, "C09.Desc::new: malformed descriptor accepted");
}

/// one-character ASCII name with a symbolic character (fixed length 1: string comparisons stay
/// cheap, and the character ranges over all of ASCII, valid and invalid)
fn any_name1() -> (String, u8) {
    let b: u8 = kani::any();
    kani::assume(b < 0x80);
    let mut v = Vec::with_capacity(1);
    v.push(b);
    (unsafe { String::from_utf8_unchecked(v) }, b)
}
fn spec_label1(b: u8) -> bool {
    (b'a' <= b && b <= b'z') || (b'A' <= b && b <= b'Z') || b == b'_'
}

//@ id: c09_desc_new_accepts_iff_spec_c1v1
//@ prop: C09, C17
//@ tier: quick
//@ strength: bounded(1 const label, 1 variable label, fq_name: one-character names ranging over ALL of ASCII), help empty or not
//@ fn: desc::Desc::new
//@ obligation: Desc::new returns Ok <=> help non-empty AND fq_name valid AND the const and the variable label name are valid AND they are different names; never panics
#[kani::proof]
#[kani::unwind(4)]
#[kani::stub(alloc::fmt::format, stub_format)]
#[kani::stub(<[LabelPair]>::sort, stub_sort)]
fn c09_desc_new_accepts_iff_spec_c1v1() {
    let (fq, fqb) = any_name1();
    let fq_ok = spec_label1(fqb) || fqb == b':';
    let help_empty: bool = kani::any();
    let help = if help_empty { String::new() } else { "h".to_owned() };
    let (c0, c0b) = any_name1();
    let (v0, v0b) = any_name1();
    let mut consts: HashMap<String, String> = HashMap::new();
    consts.insert(c0, "x".to_owned());
    let mut vars: Vec<String> = Vec::with_capacity(2);
    vars.push(v0);
    let expect_ok = !help_empty && fq_ok && spec_label1(c0b) && spec_label1(v0b) && c0b != v0b;
    let r = Desc::new(fq, help, vars, consts);
    let ok = r.is_ok();
    core::mem::forget(r);
    if ok {
        assert!(expect_ok, "C09.Desc::new: accepted although help is empty, or a name is invalid, or the same label name is used as const and as variable label");
    } else {
        assert!(!expect_ok, "C09.Desc::new: refused a well-formed descriptor");
    }
    kani::cover!(expect_ok);
    kani::cover!(!expect_ok && !help_empty && fq_ok);
}
