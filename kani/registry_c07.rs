//! C07 (gather complete, canonically ordered, deterministic), C14 (type-homogeneous families) and
//! the registry clause of C09.  Child module of src/registry.rs.  Collections shim (iteration
//! order enumerated through the order seed), slice::sort_by and format! replaced by their contracts.
#![allow(dead_code, unused, static_mut_refs)]
use super::__v_registry_c06::{desc_with, HC};
use super::*;
use crate::__vcoll as coll;
use crate::__vsup::*;
use crate::desc::Desc;
use crate::proto::{Counter, Gauge, LabelPair, Metric, MetricFamily, MetricType};

fn lp(n: &str, v: &str) -> LabelPair {
    let mut l = LabelPair::default();
    l.set_name(n.to_owned());
    l.set_value(v.to_owned());
    l
}

/// harness collector emitting ONE family `name` of `kind` with ONE sample (value, one label l=lv)
pub(crate) struct One {
    pub d: Desc,
    pub kind: MetricType,
    pub val: f64,
    pub lv: &'static str,
    pub empty: bool,
}
impl Collector for One {
    fn desc(&self) -> Vec<&Desc> {
        let mut v = Vec::with_capacity(1);
        v.push(&self.d);
        v
    }
    fn collect(&self) -> Vec<MetricFamily> {
        let mut mf = MetricFamily::default();
        mf.set_name(self.d.fq_name.clone());
        mf.set_help(self.d.help.clone());
        mf.set_field_type(self.kind);
        let mut ms = Vec::with_capacity(1);
        if !self.empty {
            let mut lps = Vec::with_capacity(1);
            lps.push(lp("l", self.lv));
            let mut m = Metric::from_label(lps);
            match self.kind {
                MetricType::GAUGE => {
                    let mut g = Gauge::default();
                    g.set_value(self.val);
                    m.set_gauge(g);
                }
                _ => {
                    let mut c = Counter::default();
                    c.set_value(self.val);
                    m.set_counter(c);
                }
            }
            ms.push(m);
        }
        mf.set_metric(ms);
        let mut out = Vec::with_capacity(1);
        out.push(mf);
        out
    }
}

fn one(name: &str, id: u64, kind: MetricType, val: f64, lv: &'static str) -> Box<One> {
    let mut d = desc_with(name, id, 7);
    d.help = "h".to_owned();
    Box::new(One { d, kind, val, lv, empty: false })
}

fn value_of(m: &Metric, t: MetricType) -> f64 {
    match t {
        MetricType::GAUGE => m.get_gauge().get_value(),
        _ => m.get_counter().get_value(),
    }
}

/// registry with two collectors inserted in the given order
fn reg2(first: Box<One>, second: Box<One>, id1: u64, id2: u64) -> RegistryCore {
    let mut r = RegistryCore::default();
    r.collectors_by_id.insert(id1, first);
    r.collectors_by_id.insert(id2, second);
    r
}

fn gather_two_names(seed: u32) {
    coll::set_order_seed(seed);
    let v1: f64 = kani::any();
    let v2: f64 = kani::any();
    // registered in the order "b", "a"
    let r = reg2(one("b", 2, MetricType::GAUGE, v2, "x"), one("a", 1, MetricType::COUNTER, v1, "x"), 2, 1);
    let out = r.gather();
    assert!(out.len() == 2, "C07.gather: not one family per registered metric name");
    assert!(out[0].name() == "a" && out[1].name() == "b", "C07.gather: families not in strictly increasing name order");
    assert!(out[0].help() == "h" && out[0].get_field_type() == MetricType::COUNTER && out[1].get_field_type() == MetricType::GAUGE, "C07.gather: declared help/type not carried");
    assert!(out[0].get_metric().len() == 1 && out[1].get_metric().len() == 1, "C07.gather: sample missing or duplicated");
    assert!(out[0].get_metric()[0].get_counter().get_value().to_bits() == v1.to_bits(), "C07.gather: sample value of family a");
    assert!(out[1].get_metric()[0].get_gauge().get_value().to_bits() == v2.to_bits(), "C07.gather: sample value of family b");
    core::mem::forget((r, out));
}

//@ id: c07_gather_two_names_order0
//@ prop: C07
//@ tier: quick
//@ strength: bounded(2 collectors with different names registered in non-sorted order, one sample each; collector map iterated in insertion order), complete in sample values
//@ fn: registry::RegistryCore::gather
//@ obligation: gather returns one family per name, in strictly increasing name order, each with its collector's sample (value bit-exact), help and type
#[kani::proof]
#[kani::unwind(4)]
#[kani::stub(alloc::fmt::format, stub_format)]
fn c07_gather_two_names_order0() {
    gather_two_names(0);
}

//@ id: c07_gather_two_names_order1
//@ prop: C07
//@ tier: quick
//@ strength: bounded(as order0; collector map iterated in REVERSE order)
//@ fn: registry::RegistryCore::gather
//@ obligation: same result whatever the iteration order of the collector map (hash seed / registration order)
#[kani::proof]
#[kani::unwind(4)]
#[kani::stub(alloc::fmt::format, stub_format)]
fn c07_gather_two_names_order1() {
    gather_two_names(1);
}

fn gather_same_name(seed: u32) {
    coll::set_order_seed(seed);
    let v1: f64 = kani::any();
    let v2: f64 = kani::any();
    // two collectors under ONE name, label values "y" (registered first) and "x"
    let r = reg2(one("a", 5, MetricType::COUNTER, v1, "y"), one("a", 6, MetricType::COUNTER, v2, "x"), 5, 6);
    let out = r.gather();
    assert!(out.len() == 1 && out[0].name() == "a", "C07.gather: collectors sharing a name must yield ONE family");
    let ms = out[0].get_metric();
    assert!(ms.len() == 2, "C07.gather: every sample of every collector exactly once");
    assert!(ms[0].get_label()[0].value() == "x" && ms[1].get_label()[0].value() == "y", "C07.gather: samples not ordered lexicographically by label values");
    assert!(ms[0].get_counter().get_value().to_bits() == v2.to_bits() && ms[1].get_counter().get_value().to_bits() == v1.to_bits(), "C07.gather: sample values mixed up");
    core::mem::forget((r, out));
}

//@ id: c07_gather_same_name_order0
//@ prop: C07
//@ tier: quick
//@ strength: bounded(2 collectors sharing one name, one sample each with label values y / x; map iterated in insertion order), complete in sample values
//@ fn: registry::RegistryCore::gather
//@ obligation: one family holding both samples exactly once, ordered lexicographically by label values
#[kani::proof]
#[kani::unwind(4)]
#[kani::stub(alloc::fmt::format, stub_format)]
fn c07_gather_same_name_order0() {
    gather_same_name(0);
}

//@ id: c07_gather_same_name_order1
//@ prop: C07
//@ tier: quick
//@ strength: bounded(as order0; map iterated in REVERSE order)
//@ fn: registry::RegistryCore::gather
//@ obligation: the merged, sorted family is the same for the other iteration order
#[kani::proof]
#[kani::unwind(4)]
#[kani::stub(alloc::fmt::format, stub_format)]
fn c07_gather_same_name_order1() {
    gather_same_name(1);
}

//@ id: c07_gather_prunes_empty_and_prefixes
//@ prop: C07, C09
//@ tier: quick
//@ strength: bounded(2 collectors, one of them currently without samples; registry prefix "p" and ONE common label), complete in the sample value
//@ fn: registry::RegistryCore::gather
//@ obligation: a family without samples is not returned; the registry prefix is applied to every family name (prefix ++ "_" ++ name) and the common label is appended to every sample after the sample's own labels
#[kani::proof]
#[kani::unwind(4)]
#[kani::stub(alloc::fmt::format, stub_format)]
fn c07_gather_prunes_empty_and_prefixes() {
    coll::set_order_seed(0);
    let v1: f64 = kani::any();
    let mut e = one("b", 2, MetricType::COUNTER, 0.0, "x");
    e.empty = true;
    let mut r = reg2(e, one("a", 1, MetricType::COUNTER, v1, "x"), 2, 1);
    r.prefix = Some("p".to_owned());
    let mut cl: HashMap<String, String> = HashMap::new();
    cl.insert("z".to_owned(), "w".to_owned());
    r.labels = Some(cl);
    let out = r.gather();
    assert!(out.len() == 1, "C07.gather: a family without samples must be pruned (and the other one kept)");
    assert!(out[0].name() == "p_a", "C07.gather: registry prefix not applied as prefix_name");
    let m = &out[0].get_metric()[0];
    assert!(m.get_label().len() == 2, "C07.gather: common label not applied to the sample");
    assert!(m.get_label()[0].name() == "l" && m.get_label()[1].name() == "z" && m.get_label()[1].value() == "w", "C07.gather: common label must follow the sample's own labels with its name and value");
    assert!(m.get_counter().get_value().to_bits() == v1.to_bits(), "C07.gather: sample value");
    core::mem::forget((r, out));
}

fn common_labels(seed: u32) {
    coll::set_order_seed(seed);
    let mut r = RegistryCore::default();
    r.collectors_by_id.insert(1, one("a", 1, MetricType::COUNTER, 1.0, "x"));
    let mut cl: HashMap<String, String> = HashMap::new();
    cl.insert("z".to_owned(), "1".to_owned());
    cl.insert("y".to_owned(), "2".to_owned());
    r.labels = Some(cl);
    let out = r.gather();
    let m = &out[0].get_metric()[0];
    assert!(m.get_label().len() == 3, "C07.gather: both common labels must be applied");
    // deterministic: the same canonical order (by label name) for every hash seed
    assert!(m.get_label()[1].name() == "y" && m.get_label()[2].name() == "z", "C07.gather: order of the common labels depends on hash-map iteration order (result differs between hash seeds)");
    core::mem::forget((r, out));
}

//@ id: c07_common_labels_order0
//@ prop: C07
//@ tier: quick
//@ strength: bounded(1 collector, 2 registry-level common labels inserted as z, y; label map iterated in insertion order)
//@ fn: registry::RegistryCore::gather
//@ obligation: the common labels are appended in a canonical order (by name) that does not depend on the hash seed
#[kani::proof]
#[kani::unwind(4)]
#[kani::stub(alloc::fmt::format, stub_format)]
fn c07_common_labels_order0() {
    common_labels(0);
}

//@ id: c07_common_labels_order1
//@ prop: C07
//@ tier: quick
//@ strength: bounded(as order0; label map iterated in REVERSE order)
//@ fn: registry::RegistryCore::gather
//@ obligation: same canonical order of the common labels for the other hash seed
#[kani::proof]
#[kani::unwind(4)]
#[kani::stub(alloc::fmt::format, stub_format)]
fn c07_common_labels_order1() {
    common_labels(1);
}

fn mixed_types(seed: u32) {
    coll::set_order_seed(seed);
    let v1: f64 = kani::any();
    let v2: f64 = kani::any();
    // a counter and a gauge that share name and help (different const-label values => different
    // ids, same dimension hash): both registrations are accepted (C06 contract)
    let r = reg2(one("a", 5, MetricType::COUNTER, v1, "x"), one("a", 6, MetricType::GAUGE, v2, "y"), 5, 6);
    let out = r.gather();
    let mut i = 0;
    while i < out.len() {
        let t = out[i].get_field_type();
        let ms = out[i].get_metric();
        let mut j = 0;
        while j < ms.len() {
            let supplied = if ms[j].get_label()[0].value() == "x" { v1 } else { v2 };
            assert!(value_of(&ms[j], t).to_bits() == supplied.to_bits(), "C14.gather: a sample sits in a family of another metric type: read through the family's type its value is not the one the collector supplied");
            j += 1;
        }
        i += 1;
    }
    core::mem::forget((r, out));
}

//@ id: c14_mixed_types_order0
//@ prop: C14
//@ tier: quick
//@ known: KF-C14-1
//@ strength: bounded(a counter collector and a gauge collector sharing name and help; map iterated in insertion order), complete in sample values
//@ fn: registry::RegistryCore::gather
//@ obligation: every sample of a gathered family carries a value of the family's declared type (read through the family's type accessor it equals the value the collector supplied)
#[kani::proof]
#[kani::unwind(4)]
#[kani::stub(alloc::fmt::format, stub_format)]
fn c14_mixed_types_order0() {
    mixed_types(0);
}

//@ id: c14_mixed_types_order1
//@ prop: C14
//@ tier: quick
//@ known: KF-C14-1
//@ strength: bounded(as order0; map iterated in REVERSE order)
//@ fn: registry::RegistryCore::gather
//@ obligation: same obligation for the other hash seed (the declared type of the merged family then comes from the other collector)
#[kani::proof]
#[kani::unwind(4)]
#[kani::stub(alloc::fmt::format, stub_format)]
fn c14_mixed_types_order1() {
    mixed_types(1);
}

fn same_type_families(seed: u32) {
    coll::set_order_seed(seed);
    let v1: f64 = kani::any();
    let v2: f64 = kani::any();
    let k: MetricType = if kani::any() { MetricType::COUNTER } else { MetricType::GAUGE };
    let r = reg2(one("a", 5, k, v1, "x"), one("a", 6, k, v2, "y"), 5, 6);
    let out = r.gather();
    assert!(out.len() == 1 && out[0].get_field_type() == k, "C14.gather: family type is not the collectors' type");
    let ms = out[0].get_metric();
    assert!(ms.len() == 2, "C14.gather: samples");
    assert!(value_of(&ms[0], k).to_bits() == v1.to_bits() && value_of(&ms[1], k).to_bits() == v2.to_bits(), "C14.gather: a sample's value read through the family's type is not the supplied one");
    core::mem::forget((r, out));
}

//@ id: c14_same_type_families
//@ prop: C14
//@ tier: quick
//@ strength: bounded(2 collectors of the SAME kind sharing a name, either kind, map iterated in insertion order), complete in sample values
//@ fn: registry::RegistryCore::gather
//@ obligation: for collectors of one kind the merged family has that type and every sample's value read through it is the supplied one (everything except the known mixed-kind finding)
#[kani::proof]
#[kani::unwind(4)]
#[kani::stub(alloc::fmt::format, stub_format)]
fn c14_same_type_families() {
    same_type_families(0);
}

//@ id: c07_gather_single_collector_minimal
//@ prop: C07
//@ tier: off
//@ strength: bounded(one collector, one unlabelled sample, no prefix, no common labels)
//@ fn: registry::RegistryCore::gather
//@ obligation: (feasibility probe) one family with the collector's sample, help and type
#[kani::proof]
#[kani::unwind(4)]
#[kani::stub(alloc::fmt::format, stub_format)]
fn c07_gather_single_collector_minimal() {
    coll::set_order_seed(0);
    let v1: f64 = kani::any();
    let mut r = RegistryCore::default();
    r.collectors_by_id.insert(1, one("a", 1, MetricType::COUNTER, v1, "x"));
    let out = r.gather();
    assert!(out.len() == 1 && out[0].name() == "a" && out[0].get_field_type() == MetricType::COUNTER, "C07.gather: single family");
    assert!(out[0].get_metric().len() == 1 && out[0].get_metric()[0].get_counter().get_value().to_bits() == v1.to_bits(), "C07.gather: sample");
    core::mem::forget((r, out));
}
