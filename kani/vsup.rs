//! Crate-level support for the injected harnesses (`crate::__vsup`, cfg(kani) only).
//! Stubs here are *assumed callee contracts* (listed in every evidence file).
#![allow(dead_code, unused)]

/// Stub for `alloc::fmt::format`: error-message text is never inspected by a contract,
/// and float/integer `Display` under CBMC is the dominant cost (probed: 245 s -> 4 s).
pub fn stub_format(_args: core::fmt::Arguments<'_>) -> String {
    String::new()
}

/// the bit round trip the atomics perform (same expression shape as the code, so the solver sees
/// syntactically identical float terms on both sides of a contract equality)
pub fn rt(x: f64) -> f64 {
    f64::from_bits(x.to_bits())
}

/// bitwise f64 equality that identifies all NaNs
pub fn feq(a: f64, b: f64) -> bool {
    (a.is_nan() && b.is_nan()) || a.to_bits() == b.to_bits()
}

pub fn mk_desc() -> crate::desc::Desc {
    crate::desc::Desc {
        fq_name: String::new(),
        help: String::new(),
        const_label_pairs: Vec::new(),
        variable_labels: Vec::new(),
        id: 0,
        dim_hash: 0,
    }
}

/// A `Value` built field by field (all fields are `pub`): no `Desc::new` in the cone.
pub fn mk_value<P: crate::atomic64::Atomic>(init: P::T, vt: crate::value::ValueType) -> crate::value::Value<P> {
    crate::value::Value { desc: mk_desc(), val: P::new(init), val_type: vt, label_pairs: Vec::new() }
}

/// address of an atomic wrapper (`AtomicF64`/`AtomicU64`/`AtomicI64` are single-field structs, so
/// this is the address of the std atomic inside; checked by harness c01_wrapper_layout)
pub fn addr_of<T>(x: &T) -> usize {
    x as *const T as usize
}

/// a per-run canary: this assertion is false on purpose; the driver requires it to be
/// reported FAILURE (guards against a verifier that reports success vacuously).
#[kani::proof]
fn canary_must_fail() {
    let x: u8 = kani::any();
    assert!(x != 77, "VERIF-CANARY");
}

/// ASCII string of symbolic length 0..=N with symbolic content (valid UTF-8 because every byte
/// is < 0x80)
pub fn any_ascii_string<const N: usize>() -> String {
    let b: [u8; N] = kani::any();
    let len: usize = kani::any();
    kani::assume(len <= N);
    let mut i = 0;
    while i < N {
        kani::assume(b[i] < 0x80);
        i += 1;
    }
    unsafe { String::from_utf8_unchecked(b[..len].to_vec()) }
}

// ---- contracts of std `format!` at the call sites whose result is used functionally ----------
pub fn fmt_dollar(name: &str) -> String {
    let mut r = String::with_capacity(1 + name.len());
    r.push('$');
    r.push_str(name);
    r
}
pub fn fmt_join2(a: &str, b: &str) -> String {
    let mut r = String::with_capacity(a.len() + 1 + b.len());
    r.push_str(a);
    r.push('_');
    r.push_str(b);
    r
}
pub fn fmt_join3(a: &str, b: &str, c: &str) -> String {
    let mut r = String::with_capacity(a.len() + b.len() + c.len() + 2);
    r.push_str(a);
    r.push('_');
    r.push_str(b);
    r.push('_');
    r.push_str(c);
    r
}

// ---- contract stubs of std's slice sorts ------------------------------------------------------
// std's driftsort/ipnsort does not leave CBMC's symbolic execution even for one-element slices
// (measured: Desc::new with ONE const label > 600 s, 21 s with this stub).  Assumed contract (A1):
// `sort`/`sort_by` produce the stable sorted permutation; the stub is a plain insertion sort.
pub fn stub_sort<T: Ord>(v: &mut [T]) {
    let n = v.len();
    let mut i = 1;
    while i < n {
        let mut j = i;
        while j > 0 && v[j - 1] > v[j] {
            v.swap(j - 1, j);
            j -= 1;
        }
        i += 1;
    }
}
pub fn stub_sort_by<T, F: FnMut(&T, &T) -> core::cmp::Ordering>(v: &mut [T], mut cmp: F) {
    let n = v.len();
    let mut i = 1;
    while i < n {
        let mut j = i;
        while j > 0 && cmp(&v[j - 1], &v[j]) == core::cmp::Ordering::Greater {
            v.swap(j - 1, j);
            j -= 1;
        }
        i += 1;
    }
}

// ---- opaque, injective tokens standing for std's number formatting (A1) ------------------------
fn push_hex(out: &mut String, x: u64) {
    let mut i = 0;
    while i < 16 {
        let nib = ((x >> (60 - 4 * i)) & 0xf) as u8;
        out.push((if nib < 10 { b'0' + nib } else { b'a' + nib - 10 }) as char);
        i += 1;
    }
}
/// contract of `f64::to_string`: an injective rendering of the value (here: its bit pattern)
pub fn f64_token(v: f64) -> String {
    let mut s = String::with_capacity(24);
    s.push_str("<f:");
    push_hex(&mut s, v.to_bits());
    s.push('>');
    s
}
/// contract of `i64::to_string` for the small non-negative timestamps used by the harnesses
pub fn i64_token(v: i64) -> String {
    let mut s = String::with_capacity(24);
    s.push_str("<i:");
    if v >= 0 && v < 100 {
        if v >= 10 {
            s.push((b'0' + (v / 10) as u8) as char);
        }
        s.push((b'0' + (v % 10) as u8) as char);
    } else {
        push_hex(&mut s, v as u64);
    }
    s.push('>');
    s
}
/// contract of `format!("{:?}", metric_type).to_lowercase()`
pub fn type_name_lower(t: crate::proto::MetricType) -> String {
    match t {
        crate::proto::MetricType::COUNTER => "counter".to_owned(),
        crate::proto::MetricType::GAUGE => "gauge".to_owned(),
        crate::proto::MetricType::SUMMARY => "summary".to_owned(),
        crate::proto::MetricType::UNTYPED => "untyped".to_owned(),
        crate::proto::MetricType::HISTOGRAM => "histogram".to_owned(),
    }
}

/// type-directed entry point used by the regex rewrite of `<expr>.to_string()` in encoder/text.rs
pub trait NumToken {
    fn tok(&self) -> String;
}
impl NumToken for f64 {
    fn tok(&self) -> String {
        f64_token(*self)
    }
}
impl NumToken for i64 {
    fn tok(&self) -> String {
        i64_token(*self)
    }
}
pub fn num_token<T: NumToken>(v: T) -> String {
    v.tok()
}

/// Contract stand-in for the TERMINAL arm of `register_histogram!` (`Histogram::with_opts($HOPTS)`
/// + `register(..)`, which do not finish under CBMC, measured): it hands back the options that
/// reached the terminal arm, so that the DELEGATING arms are judged by what they forward.  The
/// terminal arm itself is not decided.
pub fn terminal_histogram_arm(o: crate::HistogramOpts) -> crate::Result<crate::HistogramOpts> {
    Ok(o)
}

/// Contract stand-in for the TERMINAL (`@of_type`) arm of `register_counter!`, shared by
/// `register_int_counter!`: hands back the metric type identifier and the options that reached it.
/// The terminal arm itself (`$TYPE::with_opts` + `register`) is not decided.
pub fn terminal_counter_arm(ty: &'static str, o: crate::Opts) -> crate::Result<(&'static str, crate::Opts)> {
    Ok((ty, o))
}
