//! Crate-level support for the injected harnesses (`crate::__vsup`, cfg(kani) only).
//! Stubs here are *assumed callee contracts* (listed in every evidence file).
#![allow(dead_code, unused)]

/// Stub for `alloc::fmt::format`: error-message text is never inspected by a contract,
/// and float/integer `Display` under CBMC is the dominant cost (probed: 245 s -> 4 s).
pub fn stub_format(_args: core::fmt::Arguments<'_>) -> String {
    String::new()
}

/// bitwise f64 equality that identifies all NaNs
pub fn feq(a: f64, b: f64) -> bool {
    (a.is_nan() && b.is_nan()) || a.to_bits() == b.to_bits()
}

/// a per-run canary: this assertion is false on purpose; the driver requires it to be
/// reported FAILURE (guards against a verifier that reports success vacuously).
#[kani::proof]
fn canary_must_fail() {
    let x: u8 = kani::any();
    assert!(x != 77, "VERIF-CANARY");
}
