//! C12 — the local VECTOR form of counters (cache of local counters keyed by the child hash).
//! Child module of src/counter.rs; collections shim, parking_lot shim.  The shared child is put
//! into the vector by the harness (so the builder / Desc::new is not in the cone).
#![allow(dead_code, unused)]
use super::__v_counter_c01::mk_counter;
use super::*;
use crate::__vsup::*;
use crate::vec::MetricVecCore;
use parking_lot::RwLock;

fn mk_counter_vec() -> GenericCounterVec<AtomicU64> {
    let mut d = mk_desc();
    let mut vl = Vec::with_capacity(1);
    vl.push("a".to_owned());
    d.variable_labels = vl;
    let core = MetricVecCore {
        children: RwLock::new(HashMap::default()),
        desc: d,
        metric_type: proto::MetricType::COUNTER,
        new_metric: CounterVecBuilder::<AtomicU64>::new(),
        opts: Opts {
            namespace: String::new(),
            subsystem: String::new(),
            name: "m".to_owned(),
            help: "h".to_owned(),
            const_labels: HashMap::new(),
            variable_labels: Vec::new(),
        },
    };
    MetricVec { v: Arc::new(core) }
}

//@ id: c12_local_counter_vec_ledger
//@ prop: C12
//@ tier: off
//@ strength: bounded(one existing child, history = local(); with_label_values+inc_by twice; flush; flush; clone; remove_label_values), complete in the values
//@ fn: counter::GenericLocalCounterVec::with_label_values, counter::GenericLocalCounterVec::flush, counter::GenericLocalCounterVec::remove_label_values, counter::GenericLocalCounterVec::clone, counter::GenericCounterVec::local
//@ obligation: a local counter vector caches ONE local counter per child (two requests for the same label values accumulate into the same pending amount, nothing reaches the shared child before flush); flush hands over exactly the pending amount and a second flush nothing; a clone starts with an empty cache; remove_label_values drops the cached local AND the shared child (a handle taken before stays usable)
#[kani::proof]
#[kani::unwind(6)]
#[kani::stub(alloc::fmt::format, stub_format)]
fn c12_local_counter_vec_ledger() {
    let vec = mk_counter_vec();
    let s: u64 = kani::any();
    let v: u64 = kani::any();
    let w: u64 = kani::any();
    kani::assume(s < (1 << 40) && v < (1 << 40) && w < (1 << 40));
    let child: IntCounter = mk_counter::<AtomicU64>(s);
    let h = vec.v.hash_label_values(&["x"]).unwrap();
    vec.v.children.write().insert(h, child.clone());
    let mut lv = vec.local();
    lv.with_label_values(&["x"]).inc_by(v);
    lv.with_label_values(&["x"]).inc_by(w);
    assert!(lv.local.len() == 1, "C12.LocalCounterVec: more than one cached local for one child");
    assert!(child.get() == s, "C12.LocalCounterVec: a local update reached the shared child before flush");
    assert!(vec.v.children.ghost_peek().len() == 1, "C12.LocalCounterVec: with_label_values created another shared child");
    lv.flush();
    assert!(child.get() == s + v + w, "C12.LocalCounterVec.flush: the shared child did not receive exactly the pending amount");
    lv.flush();
    assert!(child.get() == s + v + w, "C12.LocalCounterVec: second flush added something");
    let k = lv.clone();
    assert!(k.local.len() == 0, "C12.LocalCounterVec.clone: clone does not start with an empty cache");
    lv.with_label_values(&["x"]).inc_by(v);
    let r = lv.remove_label_values(&["x"]);
    assert!(r.is_ok(), "C12.LocalCounterVec.remove_label_values: refused an existing child");
    assert!(lv.local.len() == 0, "C12.LocalCounterVec.remove_label_values: cached local not dropped");
    assert!(vec.v.children.ghost_peek().len() == 0, "C12.LocalCounterVec.remove_label_values: shared child not removed");
    lv.flush();
    assert!(child.get() == s + v + w, "C12.LocalCounterVec: a removed child's discarded pending data was flushed later");
    core::mem::forget((lv, k, vec, child, r));
}

// NOTE c12_local_counter_vec_remove_wrong_cardinality passes alone (solver 194 s) but, run next to the
// other C12 harnesses at -j 12, CBMC was OOM-killed (61 of 62 GB in use): kept `tier: off`.
/// a local counter vector whose cache already holds ONE local for label value "x" with a pending
/// amount; built field by field, so neither the entry API nor the builder is in the cone
fn mk_local_vec_with_cached(vec: &GenericCounterVec<AtomicU64>, child: &IntCounter, h: u64, pending: u64) -> GenericLocalCounterVec<AtomicU64> {
    let mut lc = child.local();
    lc.inc_by(pending);
    let mut local = HashMap::default();
    local.insert(h, lc);
    GenericLocalCounterVec { vec: MetricVec { v: vec.v.clone() }, local }
}

//@ id: c12_local_counter_vec_remove
//@ prop: C12
//@ tier: quick
//@ strength: bounded(one label, one cached local, shared child present or already removed by someone else), complete in the values
//@ fn: counter::GenericLocalCounterVec::remove_label_values, counter::GenericLocalCounterVec::flush
//@ obligation: remove_label_values(vals) leaves NO cached local for vals - its unflushed amount is discarded and a later flush of the vector adds nothing to the removed child - and no shared child for vals, whether or not the shared child still existed (someone else may have removed it first); Ok exactly when it existed
#[kani::proof]
#[kani::unwind(6)]
#[kani::stub(alloc::fmt::format, stub_format)]
fn c12_local_counter_vec_remove() {
    let vec = mk_counter_vec();
    let s: u64 = kani::any();
    let p: u64 = kani::any();
    kani::assume(s < (1 << 40) && p < (1 << 40));
    let present: bool = kani::any();
    let child: IntCounter = mk_counter::<AtomicU64>(s);
    let h = vec.v.hash_label_values(&["x"]).unwrap();
    if present {
        vec.v.children.write().insert(h, child.clone());
    }
    let mut lv = mk_local_vec_with_cached(&vec, &child, h, p);
    kani::cover!(!present && p > 0, "removal after someone else removed the shared child, with pending data");
    let r = lv.remove_label_values(&["x"]);
    assert!(r.is_ok() == present, "C12.LocalCounterVec.remove_label_values: Ok/Err does not say whether the shared child existed");
    assert!(lv.local.len() == 0, "C12.LocalCounterVec.remove_label_values: the cached local (and its unflushed amount) survived the removal");
    assert!(vec.v.children.ghost_peek().len() == 0, "C12.LocalCounterVec.remove_label_values: shared child not removed");
    lv.flush();
    assert!(child.get() == s, "C12.LocalCounterVec: the discarded pending amount of a removed child was flushed later");
    core::mem::forget((lv, vec, child, r));
}

//@ id: c12_local_counter_vec_remove_wrong_cardinality
//@ prop: C12
//@ tier: off
//@ strength: bounded(one label, one cached local; removal with 0 or 2 label values)
//@ fn: counter::GenericLocalCounterVec::remove_label_values
//@ obligation: a removal that names no child (wrong number of label values) is refused and changes nothing: cache, shared children and pending amount stay as they were and the next flush still hands the pending amount over
#[kani::proof]
#[kani::unwind(6)]
#[kani::stub(alloc::fmt::format, stub_format)]
fn c12_local_counter_vec_remove_wrong_cardinality() {
    let vec = mk_counter_vec();
    let s: u64 = kani::any();
    let p: u64 = kani::any();
    kani::assume(s < (1 << 40) && p < (1 << 40));
    let child: IntCounter = mk_counter::<AtomicU64>(s);
    let h = vec.v.hash_label_values(&["x"]).unwrap();
    vec.v.children.write().insert(h, child.clone());
    let mut lv = mk_local_vec_with_cached(&vec, &child, h, p);
    let r = if kani::any() { lv.remove_label_values(&[]) } else { lv.remove_label_values(&["x", "y"]) };
    assert!(r.is_err(), "C12.LocalCounterVec.remove_label_values: accepted a wrong number of label values");
    assert!(lv.local.len() == 1 && vec.v.children.ghost_peek().len() == 1, "C12.LocalCounterVec.remove_label_values: a refused removal changed the cache or the shared children");
    lv.flush();
    assert!(child.get() == s + p, "C12.LocalCounterVec.flush: the shared child did not receive exactly the pending amount");
    lv.flush();
    assert!(child.get() == s + p, "C12.LocalCounterVec.flush: second flush added something");
    core::mem::forget((lv, vec, child, r));
}
