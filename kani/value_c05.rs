//! C05 — the child's label set: `make_label_pairs`.  Child module of src/value.rs.
#![allow(dead_code, unused)]
use super::*;
use crate::__vsup::*;

fn lp(n: &str, v: &str) -> LabelPair {
    let mut l = LabelPair::default();
    l.set_name(n.to_owned());
    l.set_value(v.to_owned());
    l
}
fn desc_with_labels(vars: &[&str], consts: &[(&str, &str)]) -> Desc {
    let mut d = mk_desc();
    let mut vl = Vec::with_capacity(2);
    for v in vars {
        vl.push((*v).to_owned());
    }
    d.variable_labels = vl;
    let mut cl = Vec::with_capacity(2);
    for (n, v) in consts {
        cl.push(lp(n, v));
    }
    d.const_label_pairs = cl;
    d
}

//@ id: c05_make_label_pairs_contract
//@ prop: C05
//@ tier: quick
//@ strength: bounded(enumerated concrete scenarios: variable label sorting after / before the const label, no variable labels, no labels at all, wrong cardinality)
//@ fn: value::make_label_pairs
//@ obligation: the child's label pairs are exactly (declared variable-label name, supplied value) for every position plus the constant pairs, sorted by name; a wrong number of values gives Err(InconsistentCardinality) and no pairs
#[kani::proof]
#[kani::unwind(6)]
#[kani::stub(<[LabelPair]>::sort, stub_sort)]
#[kani::stub(alloc::fmt::format, stub_format)]
fn c05_make_label_pairs_contract() {
    // variable label "b" (value "v"), const a=x  ->  [a=x, b=v]
    let d = desc_with_labels(&["b"], &[("a", "x")]);
    let r = make_label_pairs(&d, &["v"]);
    match &r {
        Ok(p) => {
            assert!(p.len() == 2, "C05.make_label_pairs: number of pairs");
            assert!(p[0].name() == "a" && p[0].value() == "x" && p[1].name() == "b" && p[1].value() == "v", "C05.make_label_pairs: pairs are not (declared name, supplied value) + const pairs sorted by name");
        }
        Err(_) => assert!(false, "C05.make_label_pairs: refused matching cardinality"),
    }
    // variable label "a" sorts BEFORE the const label "c"
    let d2 = desc_with_labels(&["a"], &[("c", "x")]);
    let r2 = make_label_pairs(&d2, &[""]);
    match &r2 {
        Ok(p) => assert!(p.len() == 2 && p[0].name() == "a" && p[0].value() == "" && p[1].name() == "c" && p[1].value() == "x", "C05.make_label_pairs: variable label sorting before the const label / empty value"),
        Err(_) => assert!(false, "C05.make_label_pairs: refused matching cardinality"),
    }
    // wrong cardinality
    let r3 = make_label_pairs(&d, &["v", "w"]);
    assert!(matches!(r3, Err(Error::InconsistentCardinality { expect: 1, got: 2 })), "C05.make_label_pairs: wrong number of values must give InconsistentCardinality");
    // only const labels / nothing
    let d4 = desc_with_labels(&[], &[("a", "x")]);
    let r4 = make_label_pairs(&d4, &[] as &[&str]);
    match &r4 {
        Ok(p) => assert!(p.len() == 1 && p[0].name() == "a" && p[0].value() == "x", "C05.make_label_pairs: const-only"),
        Err(_) => assert!(false, "C05.make_label_pairs: const-only refused"),
    }
    let d5 = desc_with_labels(&[], &[]);
    let r5 = make_label_pairs(&d5, &[] as &[&str]);
    assert!(matches!(&r5, Ok(p) if p.is_empty()), "C05.make_label_pairs: no labels");
    core::mem::forget((d, r, d2, r2, r3, d4, r4, d5, r5));
}
