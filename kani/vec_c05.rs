//! C05 (one child per distinct label-value tuple) and C10 (sequential contracts of the vector's
//! critical sections + lock discipline).  Child module of src/vec.rs.
//! Built with the collections shim and the parking_lot shim (ghost lock state).
#![allow(dead_code, unused, static_mut_refs)]
use super::*;
use crate::__vrec as rec;
use crate::__vsup::*;
use parking_lot::ghost as lk;

// ---- a light builder: children are tokens that remember what they were built from ------------
#[derive(Clone)]
pub(crate) struct LOpts;
impl Describer for LOpts {
    fn describe(&self) -> Result<Desc> {
        Ok(mk_desc())
    }
}
#[derive(Clone)]
pub(crate) struct LM {
    pub id: u32,
}
impl Metric for LM {
    fn metric(&self) -> crate::proto::Metric {
        let mut m = crate::proto::Metric::default();
        m.set_timestamp_ms(self.id as i64);
        m
    }
}
#[derive(Clone)]
pub(crate) struct LB;
static mut BUILDS: u32 = 0;
static mut BUILD_FAIL: bool = false;
static mut BUILD_NVALS: usize = 0;
static mut BUILD_VAL_LEN: [usize; 3] = [0; 3];
static mut BUILD_VAL_B0: [u8; 3] = [0; 3];
impl MetricVecBuilder for LB {
    type M = LM;
    type P = LOpts;
    fn build<V: AsRef<str>>(&self, _: &LOpts, vals: &[V]) -> Result<LM> {
        unsafe {
            BUILDS += 1;
            BUILD_NVALS = vals.len();
            let mut i = 0;
            while i < vals.len() && i < 3 {
                let s = vals[i].as_ref().as_bytes();
                BUILD_VAL_LEN[i] = s.len();
                BUILD_VAL_B0[i] = if s.len() > 0 { s[0] } else { 0 };
                i += 1;
            }
            if BUILD_FAIL {
                return Err(Error::Msg(String::new()));
            }
            Ok(LM { id: 1000 + BUILDS })
        }
    }
}
fn reset_builder(fail: bool) {
    unsafe {
        BUILDS = 0;
        BUILD_FAIL = fail;
        BUILD_NVALS = 0;
    }
}
fn builds() -> u32 {
    unsafe { BUILDS }
}

pub(crate) fn mk_vec(names: &[&str]) -> MetricVecCore<LB> {
    let mut d = mk_desc();
    let mut v = Vec::with_capacity(4);
    let mut i = 0;
    while i < names.len() {
        v.push(names[i].to_owned());
        i += 1;
    }
    d.variable_labels = v;
    MetricVecCore {
        children: RwLock::new(HashMap::default()),
        desc: d,
        metric_type: MetricType::COUNTER,
        new_metric: LB,
        opts: LOpts,
    }
}

/// short symbolic ASCII string living in a caller-provided stack buffer
fn any_str2<'a>(buf: &'a mut [u8; 2]) -> &'a str {
    let b: [u8; 2] = kani::any();
    kani::assume(b[0] < 0x80 && b[1] < 0x80);
    *buf = b;
    let len: usize = kani::any();
    kani::assume(len <= 2);
    unsafe { core::str::from_utf8_unchecked(&buf[..len]) }
}

//@ id: c05_hash_label_values_injective
//@ prop: C05
//@ tier: quick
//@ strength: bounded(2 labels, values of 0..2 symbolic ASCII bytes each: includes empty values and every boundary shift)
//@ fn: vec::MetricVecCore::hash_label_values
//@ obligation: two label-value tuples feed the same byte stream to the hasher only if they are equal position by position (whatever framing the code uses); with A1 (no FNV collision) equal child key <=> equal tuple
#[kani::proof]
#[kani::unwind(10)]
#[kani::stub(<fnv::FnvHasher as std::hash::Hasher>::write, rec::rec_write)]
#[kani::stub(<fnv::FnvHasher as std::hash::Hasher>::finish, rec::rec_finish)]
#[kani::stub(alloc::fmt::format, stub_format)]
fn c05_hash_label_values_injective() {
    let v = mk_vec(&["a", "b"]);
    let (mut b0, mut b1, mut b2, mut b3) = ([0u8; 2], [0u8; 2], [0u8; 2], [0u8; 2]);
    let x0 = any_str2(&mut b0);
    let x1 = any_str2(&mut b1);
    let y0 = any_str2(&mut b2);
    let y1 = any_str2(&mut b3);
    let mut __rec = rec::Rec::new();
    rec::install(&mut __rec);
    let r1 = v.hash_label_values(&[x0, x1]);
    let r2 = v.hash_label_values(&[y0, y1]);
    assert!(r1.is_ok() && r2.is_ok(), "C05.hash_label_values: refused a tuple of the right cardinality");
    assert!(rec::streams() == 2, "C05.hash_label_values: not one hash stream per call");
    if rec::streams_equal(0, 1) {
        assert!(x0 == y0 && x1 == y1, "C05: two different label-value tuples feed identical bytes to the hasher (they share one child)");
    }
    kani::cover!(rec::streams_equal(0, 1));
}

//@ id: c05_hash_label_values_frame
//@ prop: C05
//@ tier: quick
//@ strength: bounded(2 labels, values of 0..2 symbolic ASCII bytes)
//@ fn: vec::MetricVecCore::hash_label_values
//@ expect: link
//@ obligation: (link to the Verus lemma) the stream is frame(values) = each value followed by the separator byte 0xFF, in declared order; a different injective framing is not a violation (the check then reports 'undecided' and the lemma link must be re-established)
#[kani::proof]
#[kani::unwind(10)]
#[kani::stub(<fnv::FnvHasher as std::hash::Hasher>::write, rec::rec_write)]
#[kani::stub(<fnv::FnvHasher as std::hash::Hasher>::finish, rec::rec_finish)]
#[kani::stub(alloc::fmt::format, stub_format)]
fn c05_hash_label_values_frame() {
    let v = mk_vec(&["a", "b"]);
    let (mut b0, mut b1) = ([0u8; 2], [0u8; 2]);
    let x0 = any_str2(&mut b0);
    let x1 = any_str2(&mut b1);
    let mut __rec = rec::Rec::new();
    rec::install(&mut __rec);
    let _ = v.hash_label_values(&[x0, x1]);
    let mut pos = 0;
    assert!(rec::expect_piece(0, &mut pos, x0.as_bytes()), "C05.link: first value is not framed as value ++ 0xFF");
    assert!(rec::expect_piece(0, &mut pos, x1.as_bytes()), "C05.link: second value is not framed as value ++ 0xFF");
    assert!(pos == rec::len(0), "C05.link: trailing bytes in the stream");
}

//@ id: c05_positional_cardinality_errors
//@ prop: C05, C17
//@ tier: quick
//@ strength: bounded(2 declared labels; 0, 1 or 3 values)
//@ fn: vec::MetricVecCore::hash_label_values, vec::MetricVecCore::get_metric_with_label_values, vec::MetricVecCore::delete_label_values
//@ obligation: a positional request with the wrong number of label values returns Err(InconsistentCardinality{expect: 2, got}), hashes nothing, builds nothing and leaves the children map unchanged (same for remove_label_values); never panics
#[kani::proof]
#[kani::unwind(10)]
#[kani::stub(<fnv::FnvHasher as std::hash::Hasher>::write, rec::rec_write)]
#[kani::stub(<fnv::FnvHasher as std::hash::Hasher>::finish, rec::rec_finish)]
#[kani::stub(alloc::fmt::format, stub_format)]
fn c05_positional_cardinality_errors() {
    let v = mk_vec(&["a", "b"]);
    reset_builder(false);
    let mut __rec = rec::Rec::new();
    rec::install(&mut __rec);
    let which: u8 = kani::any();
    let r = match which {
        0 => v.get_metric_with_label_values(&[] as &[&str]),
        1 => v.get_metric_with_label_values(&["x"]),
        _ => v.get_metric_with_label_values(&["x", "y", "z"]),
    };
    match r {
        Err(Error::InconsistentCardinality { expect, got }) => assert!(expect == 2 && got != 2, "C05: cardinality error fields"),
        _ => assert!(false, "C05: wrong number of label values not refused with InconsistentCardinality"),
    }
    assert!(rec::writes() == 0 && builds() == 0 && v.children.ghost_peek().len() == 0, "C05: a refused request hashed or created something");
    assert!(v.delete_label_values(&["x"]).is_err(), "C05/C17: remove_label_values with wrong cardinality not refused");
    assert!(rec::writes() == 0, "C05: a refused removal hashed something");
}

// (tier off: the request-map harnesses below are kept for documentation.  On the HashMap<&str,&str>
// shim they intermittently end in verifier-internal `__rust_dealloc` layout failures -- the same
// text passes or fails depending on the harness set / checkout path -- so no verdict is drawn from them)
//@ id: c05_map_form_errors
//@ prop: C05, C17
//@ tier: off
//@ strength: bounded(2 declared labels; request maps with 1 entry, and with 2 entries one of which has an undeclared name)
//@ fn: vec::MetricVecCore::hash_labels, vec::MetricVecCore::get_metric_with, vec::MetricVecCore::delete
//@ obligation: a map request with too few entries returns Err(InconsistentCardinality); one with the right size but a missing label name returns Err; neither builds nor inserts anything; remove() likewise
#[kani::proof]
#[kani::unwind(10)]
#[kani::stub(<fnv::FnvHasher as std::hash::Hasher>::write, rec::rec_write)]
#[kani::stub(<fnv::FnvHasher as std::hash::Hasher>::finish, rec::rec_finish)]
#[kani::stub(alloc::fmt::format, stub_format)]
fn c05_map_form_errors() {
    let v = mk_vec(&["a", "b"]);
    reset_builder(false);
    let mut __rec = rec::Rec::new();
    rec::install(&mut __rec);
    let mut m: HashMap<&str, &str> = HashMap::new();
    m.insert("a", "x");
    let r = v.get_metric_with(&m);
    assert!(matches!(r, Err(Error::InconsistentCardinality { .. })), "C05: map with too few entries not refused");
    m.insert("c", "y"); // right size, wrong name
    let r = v.get_metric_with(&m);
    assert!(r.is_err(), "C05: map with a missing label name not refused");
    assert!(builds() == 0 && v.children.ghost_peek().len() == 0, "C05: a refused map request created something");
    assert!(v.delete(&m).is_err(), "C05/C17: remove with a missing label name not refused");
}

//@ id: c05_hash_labels_matches_positional
//@ prop: C05
//@ tier: off
//@ strength: bounded(2 labels, values of 0..2 symbolic ASCII bytes, both insertion orders of the request map)
//@ fn: vec::MetricVecCore::hash_labels, vec::MetricVecCore::get_label_values
//@ obligation: the map form {a: v0, b: v1}, in either insertion order, feeds the hasher exactly the stream of the positional form [v0, v1] (same child), and get_label_values returns the values in declared-name order
#[kani::proof]
#[kani::unwind(10)]
#[kani::stub(<fnv::FnvHasher as std::hash::Hasher>::write, rec::rec_write)]
#[kani::stub(<fnv::FnvHasher as std::hash::Hasher>::finish, rec::rec_finish)]
#[kani::stub(alloc::fmt::format, stub_format)]
fn c05_hash_labels_matches_positional() {
    let v = mk_vec(&["a", "b"]);
    let (mut b0, mut b1) = ([0u8; 2], [0u8; 2]);
    let x0 = any_str2(&mut b0);
    let x1 = any_str2(&mut b1);
    let mut m: HashMap<&str, &str> = HashMap::new();
    let swap: bool = kani::any();
    if swap {
        m.insert("b", x1);
        m.insert("a", x0);
    } else {
        m.insert("a", x0);
        m.insert("b", x1);
    }
    let mut __rec = rec::Rec::new();
    rec::install(&mut __rec);
    let r1 = v.hash_label_values(&[x0, x1]);
    let r2 = v.hash_labels(&m);
    assert!(r1.is_ok() && r2.is_ok(), "C05.hash_labels: refused a complete label map");
    assert!(rec::streams_equal(0, 1), "C05: map form and positional form of the same label values address different children");
    let vals = v.get_label_values(&m);
    match vals {
        Ok(vs) => assert!(vs.len() == 2 && vs[0] == x0 && vs[1] == x1, "C05.get_label_values: values not in declared-name order"),
        Err(_) => assert!(false, "C05.get_label_values: refused a complete label map"),
    }
}

// ---------------------------------------------------------------------------------------------
// C10: sequential contract of every critical section over the abstract map (key -> child)

/// arbitrary abstract map of size <= 2 with symbolic keys, installed in the vector
fn any_children(v: &MetricVecCore<LB>) -> (usize, [u64; 2]) {
    let n: usize = kani::any();
    kani::assume(n <= 2);
    let k: [u64; 2] = kani::any();
    kani::assume(k[0] != k[1]);
    {
        let mut c = v.children.write();
        if n >= 1 {
            c.insert(k[0], LM { id: 1 });
        }
        if n >= 2 {
            c.insert(k[1], LM { id: 2 });
        }
    }
    lk::reset();
    (n, k)
}
fn child_id(v: &MetricVecCore<LB>, key: u64) -> Option<u32> {
    v.children.ghost_peek().get(&key).map(|m| m.id)
}

//@ id: c10_get_or_create_contract
//@ prop: C10, C05
//@ tier: quick
//@ strength: bounded(abstract map of <= 2 children), complete in keys (every u64 hash), builder may fail
//@ fn: vec::MetricVecCore::get_or_create_metric
//@ obligation: from ANY map M: if key h is present the stored child is returned and nothing changes (no build); otherwise the builder is called exactly once with exactly the requested values and, if it succeeds, the new child is inserted under h and returned, all other entries unchanged; if it fails, Err and M unchanged.  Lock discipline: the whole effect happens inside ONE write-guard section, no guard is held on return
#[kani::proof]
#[kani::unwind(6)]
#[kani::stub(alloc::fmt::format, stub_format)]
fn c10_get_or_create_contract() {
    let v = mk_vec(&["a"]);
    let (n, k) = any_children(&v);
    let h: u64 = kani::any();
    let fail: bool = kani::any();
    reset_builder(fail);
    let present = (n >= 1 && h == k[0]) || (n >= 2 && h == k[1]);
    let r = v.get_or_create_metric(h, &["xy"]);
    assert!(lk::write_acq() == 1 && lk::write_rel() == 1 && lk::read_acq() == 0 && lk::held() == 0, "C10.get_or_create: effect not inside exactly one write-guard section");
    let len_after = v.children.ghost_peek().len();
    if present {
        let want = if h == k[0] { 1 } else { 2 };
        assert!(matches!(r, Ok(LM { id }) if id == want), "C10.get_or_create: existing child not returned");
        assert!(builds() == 0 && len_after == n, "C10.get_or_create: built or inserted although the child exists (an update through the first handle would be lost)");
    } else if fail {
        assert!(r.is_err() && len_after == n && builds() == 1, "C10.get_or_create: failed build left a trace");
    } else {
        assert!(builds() == 1, "C10.get_or_create: builder not called exactly once");
        unsafe {
            assert!(BUILD_NVALS == 1 && BUILD_VAL_LEN[0] == 2 && BUILD_VAL_B0[0] == b'x', "C05.get_or_create: child not built from exactly the requested label values");
        }
        assert!(matches!(r, Ok(LM { id }) if id == 1001), "C10.get_or_create: the new child is not the one returned");
        assert!(len_after == n + 1 && child_id(&v, h) == Some(1001), "C10.get_or_create: new child not stored under the requested key");
    }
    // frame: the other entries are unchanged
    if n >= 1 && h != k[0] {
        assert!(child_id(&v, k[0]) == Some(1), "C10.get_or_create: another child changed");
    }
    if n >= 2 && h != k[1] {
        assert!(child_id(&v, k[1]) == Some(2), "C10.get_or_create: another child changed");
    }
}

//@ id: c10_get_metric_with_label_values_contract
//@ prop: C10, C05
//@ tier: quick
//@ strength: bounded(abstract map of <= 2 children, one label, value of 0..2 symbolic ASCII bytes; hash = real FNV-1a)
//@ fn: vec::MetricVecCore::get_metric_with_label_values
//@ obligation: the request returns the child stored under hash(values) if present (fast path under a read guard, no write guard, no build), else creates it under that key via one write-guard section; requesting the same values twice yields the same child and builds once
#[kani::proof]
#[kani::unwind(6)]
#[kani::stub(alloc::fmt::format, stub_format)]
fn c10_get_metric_with_label_values_contract() {
    let v = mk_vec(&["a"]);
    let (n, k) = any_children(&v);
    let mut b0 = [0u8; 2];
    let x0 = any_str2(&mut b0);
    reset_builder(false);
    let h = v.hash_label_values(&[x0]).unwrap();
    let present = (n >= 1 && h == k[0]) || (n >= 2 && h == k[1]);
    let r1 = v.get_metric_with_label_values(&[x0]);
    if present {
        assert!(builds() == 0 && lk::write_acq() == 0 && lk::read_acq() == 1, "C10.get: fast path is not a pure read-guard section");
    } else {
        assert!(builds() == 1 && lk::write_acq() == 1 && lk::read_acq() == 1, "C10.get: creation is not one read attempt + one write-guard section");
        assert!(child_id(&v, h) == Some(1001), "C10.get: child not stored under hash(values)");
    }
    assert!(lk::held() == 0, "C10.get: guard still held on return");
    let r2 = v.get_metric_with_label_values(&[x0]);
    match (r1, r2) {
        (Ok(a), Ok(b)) => assert!(a.id == b.id, "C10/C05: two requests with equal label values returned different children"),
        _ => assert!(false, "C10.get: refused"),
    }
    assert!(builds() == if present { 0 } else { 1 }, "C10.get: second request for the same values built again");
}

//@ id: c10_delete_contract
//@ prop: C10
//@ tier: quick
//@ strength: bounded(abstract map of <= 2 children), complete in keys
//@ fn: vec::MetricVecCore::delete_label_values
//@ obligation: delete_label_values removes exactly the entry under hash(values) inside one write-guard section (Err and unchanged map if absent); a handle obtained before stays usable; other entries untouched
#[kani::proof]
#[kani::unwind(5)]
#[kani::stub(alloc::fmt::format, stub_format)]
fn c10_delete_contract() {
    let v = mk_vec(&["a"]);
    let (n, k) = any_children(&v);
    let h = v.hash_label_values(&["x"]).unwrap();
    let present = (n >= 1 && h == k[0]) || (n >= 2 && h == k[1]);
    let handle = v.children.ghost_peek().get(&h).cloned();
    let r = v.delete_label_values(&["x"]);
    assert!(lk::write_acq() == 1 && lk::write_rel() == 1 && lk::read_acq() == 0 && lk::held() == 0, "C10.delete: not exactly one write-guard section");
    let len_after = v.children.ghost_peek().len();
    if present {
        assert!(r.is_ok() && len_after == n - 1 && child_id(&v, h).is_none(), "C10.delete: entry not removed");
        assert!(handle.is_some(), "C10.delete: a handle taken before the removal must stay usable");
    } else {
        assert!(r.is_err() && len_after == n, "C10.delete: absent entry must give Err and leave the map unchanged");
    }
    if n >= 1 && h != k[0] {
        assert!(child_id(&v, k[0]) == Some(1), "C10.delete: another child removed or changed");
    }
    if n >= 2 && h != k[1] {
        assert!(child_id(&v, k[1]) == Some(2), "C10.delete: another child removed or changed");
    }
    core::mem::forget((v, r, handle));
}

//@ id: c10_reset_contract
//@ prop: C10
//@ tier: quick
//@ strength: bounded(abstract map of <= 2 children)
//@ fn: vec::MetricVecCore::reset
//@ obligation: reset empties the map inside exactly one write-guard section
#[kani::proof]
#[kani::unwind(5)]
fn c10_reset_contract() {
    let v = mk_vec(&["a"]);
    let (_n, _k) = any_children(&v);
    v.reset();
    assert!(lk::write_acq() == 1 && lk::write_rel() == 1 && lk::read_acq() == 0 && lk::held() == 0, "C10.reset: not exactly one write-guard section");
    assert!(v.children.ghost_peek().len() == 0, "C10.reset: children left");
    core::mem::forget(v);
}

fn collect_contract(seed: u32) {
    let v = mk_vec(&["a"]);
    crate::__vcoll::set_order_seed(seed);
    let (n, _k) = any_children(&v);
    let mf = v.collect();
    assert!(lk::read_acq() == 1 && lk::read_rel() == 1 && lk::write_acq() == 0 && lk::held() == 0, "C10.collect: not exactly one read-guard section");
    let ms = mf.get_metric();
    assert!(ms.len() == n, "C10.collect: number of samples differs from the number of children");
    if n == 2 {
        let a = ms[0].timestamp_ms();
        let b = ms[1].timestamp_ms();
        assert!((a == 1 && b == 2) || (a == 2 && b == 1), "C10.collect: a child is shown twice or is missing");
    } else if n == 1 {
        assert!(ms[0].timestamp_ms() == 1, "C10.collect: wrong child");
    }
    assert!(v.children.ghost_peek().len() == n, "C10.collect: changed the map");
    core::mem::forget((v, mf));
}

//@ id: c10_collect_contract_order0
//@ prop: C10
//@ tier: quick
//@ strength: bounded(abstract map of <= 2 children, map iterated in insertion order)
//@ fn: vec::MetricVecCore::collect
//@ obligation: collect emits exactly one sample per entry (no duplicates, none missing) under exactly one read guard and changes nothing
#[kani::proof]
#[kani::unwind(5)]
fn c10_collect_contract_order0() {
    collect_contract(0);
}

//@ id: c10_collect_contract_order1
//@ prop: C10
//@ tier: thorough
//@ strength: bounded(abstract map of <= 2 children, map iterated in reverse order)
//@ fn: vec::MetricVecCore::collect
//@ obligation: collect emits exactly one sample per entry under exactly one read guard, whatever the map's iteration order
#[kani::proof]
#[kani::unwind(5)]
fn c10_collect_contract_order1() {
    collect_contract(1);
}

//@ id: c05_hash_labels_cardinality
//@ prop: C05, C17
//@ tier: quick
//@ strength: bounded(2 declared labels; request maps with 1, 2 and 3 entries, one with an undeclared name)
//@ fn: vec::MetricVecCore::hash_labels
//@ obligation: the map form is accepted exactly when the map has one entry per declared label name and nothing else: too few entries, an EXTRA undeclared entry, or a missing declared name give Err and hash nothing usable
#[kani::proof]
#[kani::unwind(10)]
#[kani::stub(<fnv::FnvHasher as std::hash::Hasher>::write, rec::rec_write)]
#[kani::stub(<fnv::FnvHasher as std::hash::Hasher>::finish, rec::rec_finish)]
#[kani::stub(alloc::fmt::format, stub_format)]
fn c05_hash_labels_cardinality() {
    let v = mk_vec(&["a", "b"]);
    let mut __rec = rec::Rec::new();
    rec::install(&mut __rec);
    let mut m: HashMap<&str, &str> = HashMap::new();
    m.insert("a", "x");
    let r1 = v.hash_labels(&m);
    assert!(matches!(r1, Err(Error::InconsistentCardinality { expect: 2, got: 1 })), "C05.hash_labels: map with too few entries not refused with InconsistentCardinality");
    m.insert("b", "y");
    let r2 = v.hash_labels(&m);
    assert!(r2.is_ok(), "C05.hash_labels: complete map refused");
    m.insert("c", "z");
    let r3 = v.hash_labels(&m);
    assert!(matches!(r3, Err(Error::InconsistentCardinality { expect: 2, got: 3 })), "C05.hash_labels: map with an extra, undeclared label name not refused");
    let mut m2: HashMap<&str, &str> = HashMap::new();
    m2.insert("a", "x");
    m2.insert("c", "y");
    let r4 = v.hash_labels(&m2);
    assert!(r4.is_err(), "C05.hash_labels: map with a missing declared name not refused");
    core::mem::forget((v, m, m2, r1, r2, r3, r4));
}
