//! C12 — the local VECTOR form of histograms: removal of a cached local.
//! Child module of src/histogram.rs; collections shim, parking_lot shim.  The vector core, the
//! shared child and the cache are built field by field (no builder / Desc::new / entry API in the
//! cone).  Sequential: the real atomics run as Kani executes them (one thread).
#![allow(dead_code, unused)]
use super::__v_hist_c08::mk_core;
use super::*;
use crate::__vsup::*;
use crate::vec::{MetricVec, MetricVecCore};
use parking_lot::RwLock;

fn mk_hist_vec() -> HistogramVec {
    let mut d = mk_desc();
    let mut vl = Vec::with_capacity(1);
    vl.push("a".to_owned());
    d.variable_labels = vl;
    let mut b = Vec::with_capacity(1);
    b.push(1.0);
    let core = MetricVecCore {
        children: RwLock::new(HashMap::default()),
        desc: d,
        metric_type: proto::MetricType::HISTOGRAM,
        new_metric: HistogramVecBuilder {},
        opts: HistogramOpts {
            common_opts: Opts {
                namespace: String::new(),
                subsystem: String::new(),
                name: "m".to_owned(),
                help: "h".to_owned(),
                const_labels: HashMap::new(),
                variable_labels: Vec::new(),
            },
            buckets: b,
        },
    };
    MetricVec { v: Arc::new(core) }
}

// NOT REGISTERED (tier off, module not in vlib/plan.py): the only probe of this harness ended without
// results after 374 s with the machine at 58 of 62 GB (this harness alone: nothing else was running),
// i.e. CBMC was OOM-killed, so it is neither counted nor claimed; kept as the text of the intended obligation.
//@ id: c12_local_histogram_vec_remove
//@ prop: C12
//@ tier: off
//@ strength: bounded(one label, one bucket [1.0], one cached local holding one observation, shared child present or already removed by someone else), complete in the observed value
//@ fn: histogram::LocalHistogramVec::remove_label_values, histogram::LocalHistogramVec::flush, histogram::LocalHistogram::drop
//@ obligation: remove_label_values(vals) leaves NO cached local for vals and no shared child for vals, whether or not the shared child still existed; the removed local is dropped, which hands its pending batch to the histogram it was bound to exactly once (drop = flush), and a later flush of the vector adds nothing; Ok exactly when the shared child existed
#[kani::proof]
#[kani::unwind(4)]
#[kani::stub(alloc::fmt::format, stub_format)]
fn c12_local_histogram_vec_remove() {
    let vec = mk_hist_vec();
    let mut b = Vec::with_capacity(1);
    b.push(1.0);
    let child = Histogram { core: Arc::new(mk_core(b)) };
    let present: bool = kani::any();
    let h = vec.v.hash_label_values(&["x"]).unwrap();
    if present {
        vec.v.children.write().insert(h, child.clone());
    }
    let v: f64 = kani::any();
    kani::assume(v.is_finite());
    let lh = child.local();
    lh.observe(v);
    assert!(child.get_sample_count() == 0, "C12.LocalHistogramVec: a local observation reached the shared child before flush");
    let mut local = HashMap::default();
    local.insert(h, lh);
    let mut lv = LocalHistogramVec { vec: MetricVec { v: vec.v.clone() }, local };
    kani::cover!(!present, "removal after someone else removed the shared child");
    let r = lv.remove_label_values(&["x"]);
    assert!(r.is_ok() == present, "C12.LocalHistogramVec.remove_label_values: Ok/Err does not say whether the shared child existed");
    assert!(lv.local.len() == 0, "C12.LocalHistogramVec.remove_label_values: the cached local survived the removal");
    assert!(vec.v.children.ghost_peek().len() == 0, "C12.LocalHistogramVec.remove_label_values: shared child not removed");
    assert!(child.get_sample_count() == 1 && child.get_sample_sum().to_bits() == (0.0 + v).to_bits(), "C12.LocalHistogramVec.remove_label_values: dropping the removed local did not hand over exactly its pending batch");
    lv.flush();
    assert!(child.get_sample_count() == 1, "C12.LocalHistogramVec: a flush after the removal added something");
    core::mem::forget((lv, vec, child, r));
}

// NOT REGISTERED either: even this fully concrete variant passed 45 GB after ~5 min and was stopped.
//@ id: c12_local_histogram_vec_remove_orphan
//@ prop: C12
//@ tier: off
//@ strength: enumerated(one label, one bucket [1.0], one cached local holding the observation 0.5, shared child already removed by someone else)
//@ fn: histogram::LocalHistogramVec::remove_label_values, histogram::LocalHistogramVec::flush, histogram::LocalHistogram::drop
//@ obligation: remove_label_values(vals) for a child that someone else already removed is refused (Err) but still leaves NO cached local for vals; the removed local is dropped, which hands its pending batch to the histogram it was bound to exactly once, and a later flush of the vector adds nothing
#[kani::proof]
#[kani::unwind(4)]
#[kani::stub(alloc::fmt::format, stub_format)]
fn c12_local_histogram_vec_remove_orphan() {
    let vec = mk_hist_vec();
    let mut b = Vec::with_capacity(1);
    b.push(1.0);
    let child = Histogram { core: Arc::new(mk_core(b)) };
    let h = vec.v.hash_label_values(&["x"]).unwrap();
    let lh = child.local();
    lh.observe(0.5);
    let mut local = HashMap::default();
    local.insert(h, lh);
    let mut lv = LocalHistogramVec { vec: MetricVec { v: vec.v.clone() }, local };
    let r = lv.remove_label_values(&["x"]);
    assert!(r.is_err(), "C12.LocalHistogramVec.remove_label_values: Ok for a child that no longer exists");
    assert!(lv.local.len() == 0, "C12.LocalHistogramVec.remove_label_values: the cached local survived the removal");
    assert!(child.get_sample_count() == 1 && child.get_sample_sum() == 0.5, "C12.LocalHistogramVec.remove_label_values: dropping the removed local did not hand over exactly its pending batch");
    lv.flush();
    assert!(child.get_sample_count() == 1, "C12.LocalHistogramVec: a flush after the removal added something");
    core::mem::forget((lv, vec, child, r));
}
