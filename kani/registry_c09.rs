//! C09, registry clause: `Registry::new_custom` must not let an invalid prefix or an invalid
//! common-label name through (gather() applies them to every family / sample verbatim).
//! Child module of src/registry.rs.
#![allow(dead_code, unused)]
use super::*;
use crate::__vsup::*;

fn new_custom_case(prefix: Option<&str>, label: Option<&str>) -> bool {
    let labels = match label {
        Some(l) => {
            let mut m: HashMap<String, String> = HashMap::new();
            m.insert(l.to_owned(), "v".to_owned());
            Some(m)
        }
        None => None,
    };
    let r = Registry::new_custom(prefix.map(|p| p.to_owned()), labels);
    let ok = r.is_ok();
    core::mem::forget(r);
    ok
}

//@ id: c09_new_custom_refuses_invalid_prefix
//@ prop: C09, C17
//@ tier: quick
//@ strength: bounded(enumerated concrete prefixes: empty, leading digit, containing a space, non-ASCII letter; and valid ones "p", "a:b_1")
//@ fn: registry::Registry::new_custom
//@ obligation: a registry prefix is accepted exactly when prefix ++ "_" ++ name is a valid metric name for every valid name, i.e. when the prefix itself matches [a-zA-Z_:][a-zA-Z0-9_:]*; otherwise Err (no panic)
#[kani::proof]
#[kani::unwind(8)]
#[kani::stub(alloc::fmt::format, stub_format)]
fn c09_new_custom_refuses_invalid_prefix() {
    assert!(!new_custom_case(Some(""), None), "C09.new_custom: empty prefix accepted");
    assert!(!new_custom_case(Some("9"), None), "C09.new_custom: prefix with a leading digit accepted (gather would expose an invalid metric name)");
    assert!(!new_custom_case(Some("a b"), None), "C09.new_custom: prefix containing a space accepted");
    assert!(!new_custom_case(Some("é"), None), "C09.new_custom: non-ASCII prefix accepted");
    assert!(new_custom_case(Some("p"), None), "C09.new_custom: valid prefix refused");
    assert!(new_custom_case(Some("a:b_1"), None), "C09.new_custom: valid prefix refused");
    assert!(new_custom_case(None, None), "C09.new_custom: no prefix / no labels refused");
}

//@ id: c09_new_custom_refuses_invalid_label_name
//@ prop: C09, C17
//@ tier: quick
//@ strength: bounded(enumerated concrete common-label names: with a dash, leading digit, with a colon, empty; and valid ones)
//@ fn: registry::Registry::new_custom
//@ obligation: a registry-level common label is accepted exactly when its name matches [a-zA-Z_][a-zA-Z0-9_]*; otherwise Err (no panic)
#[kani::proof]
#[kani::unwind(10)]
#[kani::stub(alloc::fmt::format, stub_format)]
fn c09_new_custom_refuses_invalid_label_name() {
    assert!(!new_custom_case(None, Some("bad-name")), "C09.new_custom: common label name with a dash accepted (gather would expose an invalid label name)");
    assert!(!new_custom_case(None, Some("1x")), "C09.new_custom: common label name with a leading digit accepted");
    assert!(!new_custom_case(None, Some("a:b")), "C09.new_custom: common label name with a colon accepted");
    assert!(!new_custom_case(None, Some("")), "C09.new_custom: empty common label name accepted");
    assert!(new_custom_case(None, Some("dc")), "C09.new_custom: valid common label refused");
    assert!(new_custom_case(Some("p"), Some("_x1")), "C09.new_custom: valid prefix + label refused");
}
