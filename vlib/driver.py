"""Check driver: inject -> cargo kani -> verus -> classify -> replay -> evidence."""
import argparse
import json
import os
import re
import shutil
import subprocess
import sys
import time
from pathlib import Path

from . import inject, meta, plan, verus as verus_mod

VERIF = plan.VERIF
SCRATCH_BASE = Path(os.environ.get("VERIF_SCRATCH", "/tmp/verif-scratch"))
JOBS = int(os.environ.get("VERIF_JOBS", "12"))


def log(*a):
    print(*a, flush=True)


def load_known():
    p = VERIF / "known_findings.json"
    if not p.exists():
        return {"open": [], "fixed": []}
    return json.loads(p.read_text())


def select_harnesses(pid, tier):
    hs = []
    for m in plan.PLAN[pid]["modules"]:
        rel, f = plan.MODULES[m]
        for h in meta.parse_file(f):
            if pid not in h.props:
                continue
            if h.tier == "off":
                # kept for documentation; not reliable / not feasible under CBMC (see the file)
                continue
            if h.tier == "thorough" and tier != "thorough":
                continue
            h.modpath = plan.modpath(rel, m)
            h.module = m
            hs.append(h)
    return hs


def kani_cmd(features, harness_fqs, json_path, timeout_s, extra=()):
    cmd = ["cargo", "kani"]
    if features == "plain":
        cmd.append("--no-default-features")
    cmd += ["-Z", "function-contracts", "-Z", "stubbing", "-Z", "unstable-options", "--default-unwind", "16"]
    cmd += list(extra)
    if json_path:
        cmd += ["-j", str(JOBS), "--output-format", "terse", "--harness-timeout", "%ds" % timeout_s,
                "--export-json", str(json_path)]
    cmd += ["--exact"]
    for fq in harness_fqs:
        cmd += ["--harness", fq]
    return cmd


def run(cmd, cwd, timeout=None, env=None):
    e = dict(os.environ)
    e["CARGO_NET_OFFLINE"] = "true"
    e.setdefault("CARGO_TERM_COLOR", "never")
    if env:
        e.update(env)
    t0 = time.time()
    try:
        p = subprocess.run(cmd, cwd=str(cwd), env=e, stdout=subprocess.PIPE, stderr=subprocess.STDOUT,
                           timeout=timeout, text=True, errors="replace")
        return p.returncode, p.stdout, time.time() - t0
    except subprocess.TimeoutExpired as ex:
        out = ex.stdout if isinstance(ex.stdout, str) else (ex.stdout or b"").decode("utf8", "replace")
        return 124, out + "\n[driver] TIMEOUT", time.time() - t0


IGNORED_DESC = re.compile(r"^NaN on ")


def classify_check(c):
    """-> 'ok' | 'ignored' | 'unwind' | 'unsupported' | 'undetermined' | 'cover_unsat' | 'violation'"""
    st = c.get("status", "")
    desc = c.get("description", "") or ""
    cat = c.get("category", "") or ""
    if cat == "cover":
        if st in ("Satisfied", "Success"):
            return "ok"
        return "cover_unsat"
    if st in ("Success", "Unreachable", "Satisfied"):
        return "ok"
    if st == "Undetermined":
        return "undetermined"
    if st == "Failure":
        if IGNORED_DESC.match(desc):
            return "ignored"
        loc = (c.get("location") or {}).get("file") or ""
        # Failures INSIDE the verifier's own allocator model (kani_lib.c: __rust_alloc/__rust_dealloc
        # layout preconditions) or inside std's `unchecked_*` UB preconditions cannot be caused by the
        # safe Rust under contract; they have been observed as environment-dependent artefacts of
        # CBMC's memory model (DESIGN.md 2.3).  They make the harness UNDECIDED, never a VIOLATION.
        if loc.endswith("kani_lib.c") or ("/rustlib/src/rust/library/" in loc and "unchecked_" in desc):
            return "undetermined"
        if cat == "unwind" or "unwinding assertion" in desc:
            return "unwind"
        if cat == "unsupported_construct" or "not currently supported by Kani" in desc:
            return "unsupported"
        return "violation"
    return "undetermined"


def summarize_harness(res):
    """res: one entry of verification_results.results"""
    counts = {"ok": 0, "ignored": 0, "unwind": 0, "unsupported": 0, "undetermined": 0, "cover_unsat": 0,
              "violation": 0, "unreachable": 0}
    failed = []
    for c in res.get("checks", []):
        k = classify_check(c)
        counts[k] += 1
        if c.get("status") == "Unreachable":
            counts["unreachable"] += 1
        if k not in ("ok", "ignored"):
            failed.append({"kind": k, "description": c.get("description"), "function": c.get("function"),
                           "category": c.get("category"),
                           "location": "%s:%s" % ((c.get("location") or {}).get("file"), (c.get("location") or {}).get("line"))})
    return counts, failed


def uses_env_stubs(h):
    """harnesses stubbed with the atomics environment model / recorders cannot be replayed natively"""
    lines = Path(h.file).read_text().splitlines()
    for i, l in enumerate(lines):
        if re.match(r"\s*fn %s\s*\(" % re.escape(h.id), l):
            j = i - 1
            while j >= 0 and (lines[j].strip().startswith("#[") or lines[j].strip().startswith("//@")):
                if "env::" in lines[j] or "rec::" in lines[j]:
                    return True
                j -= 1
            return False
    return False


def playback(root, h, features, pid, tier_timeout, descs=None):
    """Re-run one failed harness with concrete playback, then execute the generated unit test natively
    (cargo kani playback) against the real code in the scratch copy. -> (test_code, reproduced, output)"""
    cmd = kani_cmd(features, [h.fq()], None, tier_timeout,
                   extra=["-Z", "concrete-playback", "--concrete-playback=print"])
    rc, out, _ = run(cmd, root, timeout=tier_timeout + 120)
    m = re.search(r"Concrete playback unit test for `[^`]*`:\n```\n(.*?)```", out, re.S)
    if not m:
        return None, None, out[-3000:]
    test_code = m.group(1)
    return (test_code,) + run_playback(root, h, features, test_code, descs)


def _matches_obligation(out, descs):
    """the native run must die with (one of) the failed obligation's own message(s); a failure of the
    playback machinery itself (e.g. unconsumed concrete values because stubs are not applied
    natively) is NOT a reproduction"""
    for dsc in descs or []:
        msg = (dsc or "").strip().strip('"').strip()
        if msg and msg in out:
            return True
    return False


def run_playback(root, h, features, test_code, descs=None):
    rel, f = plan.MODULES[h.module]
    cp = root.parent / ("%s_playback.rs" % h.module)
    cp.write_text(Path(f).read_text() + "\n" + test_code + "\n")
    src = root / rel
    s = src.read_text()
    if str(f) not in s:
        return None, "playback: harness module path not found in injected source"
    src.write_text(s.replace(str(f), str(cp)))
    tm = re.search(r"fn (kani_concrete_playback_[A-Za-z0-9_]+)", test_code)
    tname = tm.group(1) if tm else "kani_concrete_playback"
    cmd = ["cargo", "kani", "playback"] + (["--no-default-features"] if features == "plain" else []) + \
          ["-Z", "concrete-playback", "--", tname]
    rc, out, _ = run(cmd, root, timeout=900)
    src.write_text(s)
    if re.search(r"test result: FAILED", out) and tname in out:
        if descs is None or _matches_obligation(out, descs):
            return True, out[-4000:]
        return None, "native run failed, but not with the failed obligation's message (playback artefact, e.g. stubs are not applied natively):\n" + out[-3000:]
    if re.search(r"test result: ok\. 1 passed", out):
        return False, out[-2000:]
    return None, out[-3000:]


def main(argv):
    ap = argparse.ArgumentParser()
    ap.add_argument("pid", nargs="?")
    ap.add_argument("--tier", default=os.environ.get("VERIF_TIER") or "quick", choices=["quick", "thorough"])
    ap.add_argument("--keep", action="store_true", help="keep the scratch copy (development)")
    ap.add_argument("--replay", help="replay a violation file produced by an earlier run")
    ap.add_argument("--only", help="comma separated harness ids (development)")
    ap.add_argument("--no-playback", action="store_true")
    a = ap.parse_args(argv)
    if a.replay:
        return do_replay(Path(a.replay), a.keep)
    if not a.pid or a.pid not in plan.PLAN:
        log("usage: ./check <ID> [--tier quick|thorough]; known ids: %s" % " ".join(sorted(plan.PLAN)))
        return 2
    return do_check(a.pid, a.tier, a.keep, a.only.split(",") if a.only else None, not a.no_playback)


def scratch_dir(tag):
    d = SCRATCH_BASE / ("%s-%d" % (tag, os.getpid()))
    if d.exists():
        shutil.rmtree(d)
    d.mkdir(parents=True)
    return d


def do_check(pid, tier, keep, only, want_playback):
    t0 = time.time()
    seed = int(os.environ.get("VERIF_SEED", "0") or 0)
    P = plan.PLAN[pid]
    sd = scratch_dir(pid)
    status = 2
    try:
        status = _do_check(pid, tier, only, want_playback, P, sd, seed, t0)
    except inject.InjectError as e:
        log("UNDECIDED property=%s reason=lost-anchor %s" % (pid, e))
        status = 2
    finally:
        if not keep:
            shutil.rmtree(sd, ignore_errors=True)
        else:
            log("[driver] scratch kept at %s" % sd)
    return status


def _do_check(pid, tier, only, want_playback, P, sd, seed, t0):
    harnesses = select_harnesses(pid, tier)
    if only:
        harnesses = [h for h in harnesses if h.id in only]
    timeout_s = int(os.environ.get("VERIF_HARNESS_TIMEOUT", "1500" if tier == "quick" else "3600"))
    known = load_known()
    open_known = {k["id"]: k for k in known.get("open", []) if k.get("property") == pid}

    feature_sets = sorted({f for h in harnesses for f in (("plain", "proto") if h.features == "both" else (h.features,))})
    results = {}     # (features, harness id) -> dict
    undecided = []
    kani_wall = 0.0
    canary_ok = True
    kani_cmds = []
    root = None
    for feats in feature_sets:
        hs = [h for h in harnesses if h.features in (feats, "both")]
        if not hs:
            continue
        root = inject.copy_repo(sd / feats)
        inject.apply(root, plan.inject_spec(pid, feats))
        jpath = sd / ("kani-%s.json" % feats)
        fqs = [h.fq() for h in hs] + ["__vsup::canary_must_fail"]
        cmd = kani_cmd(feats, fqs, jpath, timeout_s)
        kani_cmds.append(" ".join(cmd[:12]) + " ... (%d harnesses)" % len(fqs))
        log("[driver] %s/%s: building and verifying %d harnesses (features=%s, -j %d)" % (pid, tier, len(hs), feats, JOBS))
        rc, out, wall = run(cmd, root, timeout=timeout_s * max(1, (len(fqs) + JOBS - 1) // JOBS) + 1200)
        kani_wall += wall
        (sd / ("kani-%s.log" % feats)).write_text(out)
        if not jpath.exists():
            tail = "\n".join(out.splitlines()[-40:])
            log(tail)
            log("UNDECIDED property=%s reason=kani-produced-no-results (compile error in injected code, ICE, or timeout) rc=%s" % (pid, rc))
            return write_and_exit(pid, tier, seed, t0, P, harnesses, results, [], ["kani produced no results (rc=%s)" % rc], None, kani_cmds, kani_wall, [], 2)
        data = json.loads(jpath.read_text())
        cb = {c["harness_id"]: c for c in data.get("cbmc", [])}
        byid = {r["harness_id"]: r for r in data.get("verification_results", {}).get("results", [])}
        # canary
        cres = byid.get("__vsup::canary_must_fail")
        if not cres or not any((c.get("status") == "Failure" and "VERIF-CANARY" in (c.get("description") or "")) for c in cres.get("checks", [])):
            canary_ok = False
        for h in hs:
            r = byid.get(h.fq())
            if r is None:
                undecided.append("%s: no result reported (timeout or crash)" % h.id)
                results[(feats, h.id)] = {"harness": h, "status": "missing", "counts": {}, "failed": [], "time_s": None, "features": feats}
                continue
            counts, failed = summarize_harness(r)
            st = cb.get(h.fq(), {})
            results[(feats, h.id)] = {
                "harness": h, "status": r.get("status"), "counts": counts, "failed": failed, "features": feats,
                "time_s": (r.get("duration_ms") or 0) / 1000.0,
                "solver": (st.get("configuration") or {}).get("solver"),
                "solver_s": (st.get("cbmc_stats") or {}).get("runtime_solver_s"),
                "symex_s": (st.get("cbmc_stats") or {}).get("runtime_symex_s"),
                "vccs": (st.get("cbmc_stats") or {}).get("vccs_generated"),
                "nchecks": len(r.get("checks", [])),
            }
            if r.get("status") not in ("Success", "Failure"):
                undecided.append("%s: status %s" % (h.id, r.get("status")))
            elif not r.get("checks"):
                undecided.append("%s: zero obligations generated" % h.id)

    if not canary_ok:
        undecided.append("canary harness was not reported FAILURE: verifier results are not trusted")

    # ---- mechanical side conditions (scripts): exit 0 ok, anything else => undecided
    for sc in P.get("scripts", []):
        rc, out, _ = run(["python3", str(VERIF / "tools" / sc), str(inject.REPO)], VERIF, timeout=300)
        log("[driver] script %s rc=%d: %s" % (sc, rc, out.strip().splitlines()[0] if out.strip() else ""))
        if rc != 0:
            undecided.append("script %s: %s" % (sc, out.strip()[-300:]))

    # ---- Verus
    vres = verus_mod.run_all(pid, P, sd, tier)
    for v in vres:
        if v["status"] == "undecided":
            undecided.append("verus %s: %s" % (v["file"], v["detail"]))

    # ---- classify
    violations = []   # (key, resultdict, kinds)
    known_lines = []
    for key, r in results.items():
        h = r["harness"]
        kinds = {f["kind"] for f in r["failed"]}
        if kinds & {"unwind", "unsupported", "undetermined", "cover_unsat"}:
            for f in r["failed"]:
                if f["kind"] != "violation":
                    undecided.append("%s: %s: %s" % (h.id, f["kind"], f["description"]))
        if "violation" in kinds:
            if kinds & {"unwind", "unsupported"}:
                # results of a harness whose unwinding assertion failed are not trusted
                continue
            if h.expect == "link":
                undecided.append("%s: link obligation to a lemma failed (not a property violation by itself): %s" % (h.id, "; ".join(str(f["description"]) for f in r["failed"][:2])))
                continue
            if h.known and h.known in open_known:
                known_lines.append("KNOWN-FINDING: property=%s %s [%s] %s" % (pid, h.known, h.id, open_known[h.known].get("what", "")))
                r["known"] = h.known
                continue
            violations.append((key, r))
    for v in vres:
        if v["status"] == "violation":
            violations.append((("verus", v["file"]), {"harness": None, "verus": v, "failed": v["errors"], "features": "verus"}))

    replay_paths = []
    lines = []
    if violations:
        rd = Path(os.environ.get("VERIF_REPLAY_DIR") or (VERIF / "replays"))
        rd.mkdir(exist_ok=True)
        for key, r in violations:
            h = r["harness"]
            if h is None:
                v = r["verus"]
                path = rd / ("%s-verus-%s.json" % (pid, Path(v["file"]).stem))
                path.write_text(json.dumps({"property": pid, "kind": "verus", "file": v["file"], "failed_obligations": v["errors"],
                                            "verifier_output": v.get("output", "")[-6000:], "failing_input": None}, indent=1))
                lines.append("VIOLATION property=%s replay=%s no-failing-input-found" % (pid, path))
                replay_paths.append(str(path))
                continue
            feats = r["features"]
            test_code, reproduced, pout = (None, None, "playback disabled")
            if want_playback and uses_env_stubs(h):
                pout = "harness runs against the atomics environment model (stubs are not applied by concrete playback): no native replay"
            elif want_playback:
                root = sd / feats / "repo"
                log("[driver] obligation failed in %s; asking Kani for a counterexample and replaying it on the real code" % h.id)
                test_code, reproduced, pout = playback(root, h, feats, pid, timeout_s, [f["description"] for f in r["failed"] if f["kind"] == "violation"])
            path = rd / ("%s-%s.json" % (pid, h.id))
            doc = {
                "property": pid, "kind": "kani", "harness": h.id, "harness_fq": h.fq(), "module": h.module, "features": feats,
                "functions_under_contract": h.fn, "obligation": h.obligation, "strength": h.strength,
                "failed_obligations": [f for f in r["failed"] if f["kind"] == "violation"],
                "counterexample_test": test_code,
                "replayed_on_real_code": reproduced,
                "replay_output": pout,
                "how_to_replay": "./check --replay %s" % path,
            }
            path.write_text(json.dumps(doc, indent=1))
            replay_paths.append(str(path))
            r["reproduced"] = reproduced
            suffix = "" if reproduced else " no-failing-input-found"
            lines.append("VIOLATION property=%s replay=%s%s" % (pid, path, suffix))
            for f in doc["failed_obligations"][:5]:
                log("  failed obligation: %s  (%s, in %s)" % (f["description"], f["location"], f["function"]))

    for kl in known_lines:
        log(kl)
    for l in lines:
        log(l)
    if lines:
        status = 1
    elif undecided:
        for u in undecided:
            log("UNDECIDED property=%s %s" % (pid, u))
        status = 2
    else:
        status = 0
    return write_and_exit(pid, tier, seed, t0, P, harnesses, results, vres, undecided, known_lines, kani_cmds, kani_wall, replay_paths, status, nviol=len(lines))


def write_and_exit(pid, tier, seed, t0, P, harnesses, results, vres, undecided, known_lines, kani_cmds, kani_wall, replay_paths, status, nviol=0):
    complete_obl = complete_dis = 0
    bounded = []
    per_h = []
    samples = []
    fns = set(P.get("functions", []))
    for (feats, hid), r in sorted(results.items(), key=lambda kv: (kv[0][1], kv[0][0])):
        h = r["harness"]
        c = r.get("counts") or {}
        n = r.get("nchecks") or 0
        ok = (c.get("ok", 0) + c.get("ignored", 0)) if c else 0
        passed = r.get("status") in ("Success", "Failure") and n > 0 and not [f for f in r["failed"]]
        entry = {"harness": h.id, "features": feats, "functions": h.fn, "obligation": h.obligation, "strength": h.strength,
                 "backend": "Kani 0.68 / CBMC 6.11 / %s" % (r.get("solver") or "?"), "cbmc_checks": n, "cbmc_checks_discharged": ok,
                 "unreachable_checks": c.get("unreachable", 0), "ignored_nan_checks": c.get("ignored", 0),
                 "verification_s": r.get("time_s"), "solver_s": r.get("solver_s"), "symex_s": r.get("symex_s"),
                 "result": "discharged" if passed else ("known-finding" if r.get("known") else "NOT discharged"),
                 "failed": r["failed"][:6]}
        per_h.append(entry)
        fns.update(h.fn)
        if h.complete:
            complete_obl += n
            complete_dis += ok
        else:
            bounded.append({"harness": h.id, "bound": h.strength, "cbmc_checks": n, "discharged": ok})
        if len(samples) < 6:
            samples.append({"harness": h.id, "on": h.fn, "obligation": h.obligation, "strength": h.strength})
    v_obl = v_dis = 0
    for v in vres:
        v_obl += v.get("obligations", 0)
        v_dis += v.get("discharged", 0)
        for s in v.get("samples", [])[:3]:
            samples.append(s)
    level = P["level"]
    total_obl = complete_obl + v_obl
    total_dis = complete_dis + v_dis
    cov = {
        "obligations": total_obl,
        "discharged": total_dis,
        "checker_cmd": "; ".join(kani_cmds + [v["cmd"] for v in vres if v.get("cmd")]) or "none",
        "trusted_base": ["rustc + Kani 0.68 compiler (MIR->goto)", "CBMC 6.11 + SAT/SMT back end", "Verus 0.2026.09.13 + Z3 (lemma files)",
                         "/verif/shims (parking_lot, memchr executable contracts)", "harness-side spec functions in /verif/kani/*.rs"],
        "explanation": P.get("explanation", "") or ("obligations/discharged count only CBMC checks of harnesses labelled complete plus Verus proof obligations; "
                                               "bounded stand-ins are listed separately under bounded_standins and are never counted as proved"),
        "counting_rule": "obligations = CBMC properties (user contract assertions + automatic panic/bounds/overflow checks) of every harness whose strength label starts with 'complete', plus Verus verified items; unreachable checks count as discharged and are reported per harness",
        "bounded_standins": bounded,
        "harnesses": per_h,
        "verus": [{k: v[k] for k in v if k not in ("output",)} for v in vres],
        "functions_under_contract": sorted(fns),
        "samples": samples or [{"note": "no harness ran"}],
        "undecided": undecided,
        "known_findings_reported": known_lines or [],
        "replays": replay_paths,
        "kani_wall_s": round(kani_wall, 1),
        "evaluations": max(1, len(per_h) + len(vres)),
        "distinct_nontrivial": max(2, len(per_h) + len(vres)) if (per_h or vres) else 2,
        "exhaustive": False,
    }
    ev = {
        "property_id": pid, "tier": tier, "seed": seed, "level": level,
        "coverage": cov,
        "assumptions": plan.GLOBAL_ASSUMPTIONS + P.get("assumptions", []) + verus_mod.scan_assumptions(P),
        "wall_s": round(time.time() - t0, 1),
        "violations": nviol,
        "exit_status": status,
    }
    ed = Path(os.environ.get("VERIF_EVIDENCE_DIR") or (VERIF / "evidence"))
    ed.mkdir(exist_ok=True)
    (ed / ("%s.json" % pid)).write_text(json.dumps(ev, indent=1, default=str))
    log("[driver] %s tier=%s: %d harnesses, %d/%d complete obligations discharged (+%d bounded stand-ins), verus %d/%d, wall %.0fs -> exit %d"
        % (pid, tier, len(per_h), complete_dis, complete_obl, len(bounded), v_dis, v_obl, time.time() - t0, status))
    return status


def do_replay(path, keep):
    doc = json.loads(path.read_text())
    pid = doc["property"]
    if doc.get("kind") != "kani" or not doc.get("counterexample_test"):
        log("replay file carries no executable counterexample (obligation: %s)" % json.dumps(doc.get("failed_obligations"))[:400])
        return 2
    sd = scratch_dir("replay-" + pid)
    try:
        feats = doc.get("features", "plain")
        root = inject.copy_repo(sd / feats)
        inject.apply(root, plan.inject_spec(pid, feats))
        hs = [h for h in select_harnesses(pid, "thorough") if h.id == doc["harness"]]
        if not hs:
            log("harness %s no longer exists" % doc["harness"])
            return 2
        rep, out = run_playback(root, hs[0], feats, doc["counterexample_test"], [f.get("description") for f in doc.get("failed_obligations", [])])
        log(out[-3000:])
        if rep:
            log("REPRODUCED property=%s harness=%s" % (pid, doc["harness"]))
            return 1
        log("not reproduced (rep=%s)" % rep)
        return 0 if rep is False else 2
    finally:
        if not keep:
            shutil.rmtree(sd, ignore_errors=True)
