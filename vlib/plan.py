"""Per-property verification plan: which harness modules are injected where, which Verus
files are checked, which assumptions and functions are reported."""
from pathlib import Path

VERIF = Path(__file__).resolve().parent.parent
K = VERIF / "kani"
S = VERIF / "shims"

# assumptions that hold for every Kani-based check (DESIGN.md section 4)
GLOBAL_ASSUMPTIONS = [
    "A1 dependency contracts assumed, not proved: parking_lot (mutual exclusion; executable-contract shim /verif/shims/parking_lot), memchr (first index of a needle; shim /verif/shims/memchr), std collections, FnvHasher (a function of its byte stream; 64-bit collision freedom assumed where identity is 'up to hash collisions'), std Display/FromStr of f64/i64",
    "A5 debug_assert! is enabled in verification builds",
    "A6 Kani/CBMC is bit-precise for machine integers and IEEE-754 doubles; termination is not proved by Kani",
    "verification build = /repo working tree copied to a scratch dir + cfg(kani)-guarded child modules appended to source files; Cargo deps parking_lot and memchr replaced by shims; dev-dependencies/benches/examples/static-metric stripped from the scratch manifest",
    "alloc::fmt::format is stubbed (returns an empty String) in harnesses marked so: error-message text is not part of any contract",
    "CBMC property class 'NaN on ...' is ignored (inf + -inf is legitimate here); all other CBMC safety checks (bounds, overflow, pointer, unwrap/panic) are obligations",
]

# module name -> (source file it becomes a child of, harness file)
MODULES = {
    "hist_c08": ("src/histogram.rs", K / "hist_c08.rs"),
    "hist_c03": ("src/histogram.rs", K / "hist_c03.rs"),
    "hist_c02": ("src/histogram.rs", K / "hist_c02.rs"),
    "hist_c18": ("src/histogram.rs", K / "hist_c18.rs"),
    "atomic_c01": ("src/atomic64.rs", K / "atomic_c01.rs"),
    "counter_c01": ("src/counter.rs", K / "counter_c01.rs"),
    "gauge_c11": ("src/gauge.rs", K / "gauge_c11.rs"),
}

CRATE_MODULES = {
    "__vsup": K / "vsup.rs",
    "__venv": K / "venv.rs",
}


def modpath(rel: str, modname: str) -> str:
    p = rel[len("src/"):-len(".rs")].replace("/", "::")
    if p.endswith("::mod"):
        p = p[: -len("::mod")]
    return "%s::__v_%s" % (p, modname)


A2 = "A2 memory model: the write events of one atomic location are totally ordered (modification order) and an RMW reads the value it replaces; 'real time' is identified with happens-before. No interleaving is explored: schedules are covered by the per-step guarantee under ARBITRARY interference (every value read at every atomic step is havocked) plus the single-cell composition lemma (Verus)"
ENV = "std atomic methods are replaced by the environment model /verif/kani/venv.rs in harnesses carrying kani::stub attributes: values read are arbitrary, compare_exchange_weak may fail at most K times per harness (bounded fairness, unwinding assertions on)"

PLAN = {
    "C01": dict(
        title="Counter increments are never lost and never go backwards",
        level="proof",
        modules=["atomic_c01", "counter_c01"],
        crate_modules=["__venv"],
        verus=["c01_rmw_fold.rs"],
        functions=[],
        assumptions=[A2, ENV, "children of counter vectors are GenericCounter values built by the same constructor (vector get-or-create is C05/C10)"],
    ),
    "C11": dict(
        title="Gauge operations are atomic",
        level="proof",
        modules=["atomic_c01", "gauge_c11"],
        crate_modules=["__venv"],
        verus=["c01_rmw_fold.rs"],
        functions=[],
        assumptions=[A2, ENV, "for f64, sub(x) undoes add(x) only up to IEEE rounding: the contract is c + x + (-x); exact inversion is proved for IntGauge"],
    ),
    "C02": dict(
        title="Every histogram snapshot is one consistent cut of the observations",
        level="other",
        modules=["hist_c08", "hist_c02"],
        crate_modules=["__venv"],
        verus=[],
        functions=[],
        explanation="REDUCED LEVEL. The all-schedules statement (every snapshot is one consistent cut) is NOT decided: it quantifies over interleavings of a multi-location lock-free protocol and over the memory model, which no per-function contract decides. What is machine-checked on the real code, under ARBITRARY interference (every value read at every atomic step havocked), are the per-thread protocol-step guarantees G-obs, G-flush, G-col, G-get: which cells each operation touches, by which single atomic operation, in which order, with which memory ordering, under which lock, and the exit condition of the collector's wait loop. They are necessary conditions of the hand-off argument in the code comments; their sufficiency (A3) is a paper argument.",
        assumptions=[A2, ENV, "A3 the multi-location hand-off protocol theorem (G-obs + G-col + G-get => consistent cut) is NOT machine-checked", "AtomicF64::inc_by is replaced by its contract (one atomic float add), proved separately in C01"],
    ),
    "C03": dict(
        title="Histograms conserve observations across any sequence of collects and flushes",
        level="proof",
        modules=["hist_c08", "hist_c03", "hist_c02"],
        crate_modules=["__venv"],
        verus=["c03_history.rs"],
        functions=[],
        assumptions=[A2, ENV, "sequential histories are decided by induction (step obligations from an arbitrary state satisfying the representation invariant); concurrent histories only through the C02 step guarantees (collector's exit condition = G-col) and assumption A3", "no-overflow precondition: counts < 2^40 per cell in the symbolic state (the code's own limit is 2^63)", "HistogramCore::new's shard construction is represented by Shard::new/ShardAndCount::new (base case); Desc::new is outside this cone"],
    ),
    "C18": dict(
        title="A timer records its duration exactly once, or never when discarded",
        level="proof",
        modules=["hist_c08", "hist_c18"],
        verus=[],
        functions=[],
        assumptions=["clock contract assumed: std::time::Instant::now returns some instant; Instant::saturating_duration_since returns SOME Duration (any non-negative span); both are stubs", "moving a timer to another thread does not change its state (ownership); no separate obligation", "nightly-only coarse timers are not built (feature off)"],
    ),
    "C08": dict(
        title="Bucket counts follow 'value <= upper bound' for every input",
        level="proof",
        modules=["hist_c08", "hist_c03"],
        verus=["c08_cumulative.rs"],
        functions=[
            "histogram::check_and_adjust_buckets", "histogram::HistogramCore::observe",
            "histogram::HistogramCore::proto", "histogram::LocalHistogramCore::observe",
        ],
        assumptions=[],
    ),
}


def inject_spec(pid: str, features: str = "plain"):
    p = PLAN[pid]
    spec = {"crate_modules": [], "modules": {}, "redirects": [], "contracts": [], "crate_attrs": []}
    for name in ["__vsup"] + p.get("crate_modules", []):
        spec["crate_modules"].append((name, CRATE_MODULES[name]))
    for m in p["modules"]:
        rel, f = MODULES[m]
        spec["modules"].setdefault(rel, []).append(("__v_" + m, f))
    spec["redirects"] = list(p.get("redirects", []))
    spec["contracts"] = list(p.get("contracts", []))
    spec["crate_attrs"] = list(p.get("crate_attrs", []))
    return spec

NOT_APPLICABLE = {
    "C19": "quantifies over all make_static_metric! declarations: the code is a proc-macro token-stream generator (syn/quote); no contract on a token builder can express 'the generated item addresses child X', and checking a few fixed expansions has no symbolic input (DESIGN.md section 5 C19)",
}
