"""Per-property verification plan: which harness modules are injected where, which Verus
files are checked, which assumptions and functions are reported."""
from pathlib import Path

VERIF = Path(__file__).resolve().parent.parent
K = VERIF / "kani"
S = VERIF / "shims"

# assumptions that hold for every Kani-based check (DESIGN.md section 4)
GLOBAL_ASSUMPTIONS = [
    "A1 dependency contracts assumed, not proved: parking_lot (mutual exclusion; executable-contract shim /verif/shims/parking_lot), memchr (first index of a needle; shim /verif/shims/memchr), std collections, FnvHasher (a function of its byte stream; 64-bit collision freedom assumed where identity is 'up to hash collisions'), std Display/FromStr of f64/i64",
    "A5 debug_assert! is enabled in verification builds",
    "A6 Kani/CBMC is bit-precise for machine integers and IEEE-754 doubles; termination is not proved by Kani",
    "verification build = /repo working tree copied to a scratch dir + cfg(kani)-guarded child modules appended to source files; Cargo deps parking_lot and memchr replaced by shims; dev-dependencies/benches/examples/static-metric stripped from the scratch manifest",
    "alloc::fmt::format is stubbed (returns an empty String) in harnesses marked so: error-message text is not part of any contract",
    "CBMC property class 'NaN on ...' is ignored (inf + -inf is legitimate here); all other CBMC safety checks (bounds, overflow, pointer, unwrap/panic) are obligations",
]

# module name -> (source file it becomes a child of, harness file)
MODULES = {
    "hist_c08": ("src/histogram.rs", K / "hist_c08.rs"),
    "hist_c03": ("src/histogram.rs", K / "hist_c03.rs"),
    "hist_c02": ("src/histogram.rs", K / "hist_c02.rs"),
    "hist_c18": ("src/histogram.rs", K / "hist_c18.rs"),
    "model_c16": ("src/lib.rs", K / "model_c16.rs"),
    "text_c04": ("src/encoder/text.rs", K / "text_c04.rs"),
    "macros_c20": ("src/macros.rs", K / "macros_c20.rs"),
    "misc_c17": ("src/histogram.rs", K / "misc_c17.rs"),
    "registry_c06": ("src/registry.rs", K / "registry_c06.rs"),
    "registry_c09": ("src/registry.rs", K / "registry_c09.rs"),
    "vec_c05": ("src/vec.rs", K / "vec_c05.rs"),
    "value_c05": ("src/value.rs", K / "value_c05.rs"),
    "desc_c15": ("src/desc.rs", K / "desc_c15.rs"),
    "desc_c09": ("src/desc.rs", K / "desc_c09.rs"),
    "metrics_c09": ("src/metrics.rs", K / "metrics_c09.rs"),
    "atomic_c01": ("src/atomic64.rs", K / "atomic_c01.rs"),
    "counter_c01": ("src/counter.rs", K / "counter_c01.rs"),
    "gauge_c11": ("src/gauge.rs", K / "gauge_c11.rs"),
    "counter_c12v": ("src/counter.rs", K / "counter_c12v.rs"),
}

CRATE_MODULES = {
    "__vsup": K / "vsup.rs",
    "__venv": K / "venv.rs",
    "__vcoll": K / "vcoll.rs",
    "__vrec": K / "vrec.rs",
}

# `use` lines redirected to the collections contract shim (profile maps=True)
MAP_REDIRECTS = [
    ("src/counter.rs", "use std::collections::HashMap;", "use crate::__vcoll::HashMap;"),
    ("src/desc.rs", "use std::collections::{BTreeSet, HashMap};", "use crate::__vcoll::{BTreeSet, HashMap};"),
    ("src/histogram.rs", "use std::collections::HashMap;", "use crate::__vcoll::HashMap;"),
    ("src/metrics.rs", "use std::collections::HashMap;", "use crate::__vcoll::HashMap;"),
    ("src/vec.rs", "use std::collections::HashMap;", "use crate::__vcoll::HashMap;"),
    ("src/registry.rs", "use std::collections::btree_map::Entry as BEntry;", "use crate::__vcoll::btree_map::Entry as BEntry;"),
    ("src/registry.rs", "use std::collections::hash_map::Entry as HEntry;", "use crate::__vcoll::hash_map::Entry as HEntry;"),
    ("src/registry.rs", "use std::collections::{BTreeMap, HashMap, HashSet};", "use crate::__vcoll::{BTreeMap, HashMap, HashSet};"),
    ("src/pulling_gauge.rs", "use std::{collections::HashMap, fmt, sync::Arc};", "use std::{fmt, sync::Arc};\nuse crate::__vcoll::HashMap;"),
]
# functional `format!` call sites replaced (exact text) by contract functions in kani/vsup.rs:
# std's formatting machinery does not terminate under CBMC even on concrete arguments (probed:
# build_fq_name("a","b","c") > 5 min), so `format!("{}_{}", a, b)` is replaced by its contract
# a ++ "_" ++ b.  All OTHER format! calls build error messages and are stubbed to "".
FMT_REDIRECTS = [
    ("src/metrics.rs", 'format!("{}_{}_{}", namespace, subsystem, name)', "crate::__vsup::fmt_join3(namespace, subsystem, name)"),
    ("src/metrics.rs", 'format!("{}_{}", namespace, name)', "crate::__vsup::fmt_join2(namespace, name)"),
    ("src/metrics.rs", 'format!("{}_{}", subsystem, name)', "crate::__vsup::fmt_join2(subsystem, name)"),
    ("src/registry.rs", 'format!("{}_{}", namespace, m.name())', "crate::__vsup::fmt_join2(namespace, m.name())"),
    # slice::sort_by cannot be stubbed (Kani rejects the stub's signature), so its single call site
    # in gather() is redirected to the contract function as well
    ("src/registry.rs", "mf.mut_metric().sort_by(|m1, m2| {", "crate::__vsup::stub_sort_by(mf.mut_metric(), |m1, m2| {"),
]
SORT_ASSUMPTION = "std slice::sort / sort_by are replaced by their contract (stable sorted permutation; insertion sort in kani/vsup.rs) in harnesses carrying `kani::stub(<[T]>::sort, stub_sort)`: std's driftsort does not leave CBMC's symbolic execution even for one-element slices (measured)"
TEXT_REDIRECTS = [
    ("src/encoder/text.rs", 'format!("{:?}", metric_type).to_lowercase()', "crate::__vsup::type_name_lower(metric_type)"),
]
# every `&<simple expr>.to_string()` in encoder/text.rs formats an f64 or i64 sample value, bound,
# quantile or timestamp: replaced by the opaque token function (type-directed through a trait)
TEXT_REGEX_REDIRECTS = [
    ("src/encoder/text.rs", r"\b([A-Za-z_][A-Za-z0-9_]*(?:\.[A-Za-z_][A-Za-z0-9_]*\(\))*)\.to_string\(\)", r"crate::__vsup::num_token(\1)", 2),
]
TEXT_ASSUMPTION = "std number formatting is replaced by opaque injective tokens at every `&<expr>.to_string()` call site in encoder/text.rs (f64::to_string x3, i64::to_string; regex rewrite) and `format!(\"{:?}\", metric_type).to_lowercase()` by the table counter/gauge/summary/untyped/histogram (exact-text rewrite in the scratch copy): that std's shortest round-trip Display/FromStr of f64 is faithful (finite values bit-exact, inf/NaN preserved) and that derive(Debug) prints the variant name are ASSUMED; a full parser round trip is not run inside the verifier"
# `format!("${}", x)` in desc.rs: regex, zero matches allowed (code that no longer builds the
# '$'-prefixed copy has nothing to redirect)
FMT_REGEX_REDIRECTS = [
    ("src/desc.rs", r'format!\("\$\{\}",\s*&?([A-Za-z_][A-Za-z0-9_]*)\)', r"crate::__vsup::fmt_dollar(\1)", 0),
]
# the two `use std::collections::HashMap;` lines INSIDE the bodies of labels! and opts! (12-space
# indent) are redirected to the shim so that macro expansions type-check against the redirected crate
MACRO_REGEX_REDIRECTS = [
    ("src/macros.rs", r"(?m)^ {12}use std::collections::HashMap;$", "            use $crate::__vcoll::HashMap;", 2),
    # terminal arm of register_histogram! -> contract stand-in returning the options that reach it
    # (Histogram::with_opts + register do not finish under CBMC); the delegating arms stay real
    ("src/macros.rs", r"(?m)^ {8}let histogram = \$crate::Histogram::with_opts\(\$HOPTS\)\.unwrap\(\);\n {8}\$crate::register\(Box::new\(histogram\.clone\(\)\)\)\.map\(\|\(\)\| histogram\)$", "        $crate::__vsup::terminal_histogram_arm($HOPTS)", 1),
    # same for the @of_type arm of register_counter! (shared by register_int_counter!)
    ("src/macros.rs", r"(?m)^ {8}let counter = \$crate::\$TYPE::with_opts\(\$OPTS\)\.unwrap\(\);\n {8}\$crate::register\(Box::new\(counter\.clone\(\)\)\)\.map\(\|\(\)\| counter\)$", "        $crate::__vsup::terminal_counter_arm(core::stringify!($TYPE), $OPTS)", 1),
]
FMT_ASSUMPTION = "std format! is replaced by its contract at the 5 call sites whose result is used functionally (desc.rs `format!(\"${}\", label_name)` -> \"$\" ++ name; metrics.rs build_fq_name's three joins and registry.rs gather's prefix join -> a ++ \"_\" ++ b) by exact-text rewrite in the scratch copy; every other format! builds an error message and is stubbed to the empty string. Reason: std::fmt::write does not terminate under CBMC even on concrete arguments (measured > 5 min)"
MAPS_ASSUMPTION = "std HashMap/HashSet/BTreeMap/BTreeSet are replaced by the contract shim /verif/kani/vcoll.rs (functional map with key equality; HashMap iteration order is a nondeterministic permutation at every iteration = every hash seed; BTree* iterate in key order) through a mechanical rewrite of the `use std::collections::...` lines of counter.rs, desc.rs, histogram.rs, metrics.rs, vec.rs, registry.rs, pulling_gauge.rs in the scratch copy; the std implementations themselves are assumed to meet that contract"

# Kani function contracts inserted on the real functions (attribute lines placed before the fn)
CONTRACTS = {
    "charset": [
        ("src/desc.rs", r"^fn matches_charset_without_colon\(c: char\) -> bool",
         "#[cfg_attr(kani, kani::ensures(|r: &bool| *r == (('a' <= c && c <= 'z') || ('A' <= c && c <= 'Z') || c == '_')))]"),
        ("src/desc.rs", r"^fn matches_charset_with_colon\(c: char\) -> bool",
         "#[cfg_attr(kani, kani::ensures(|r: &bool| *r == (('a' <= c && c <= 'z') || ('A' <= c && c <= 'Z') || c == '_' || c == ':')))]"),
    ],
}


def modpath(rel: str, modname: str) -> str:
    if rel == "src/lib.rs":
        return "__v_%s" % modname
    p = rel[len("src/"):-len(".rs")].replace("/", "::")
    if p.endswith("::mod"):
        p = p[: -len("::mod")]
    return "%s::__v_%s" % (p, modname)


A2 = "A2 memory model: the write events of one atomic location are totally ordered (modification order) and an RMW reads the value it replaces; 'real time' is identified with happens-before. No interleaving is explored: schedules are covered by the per-step guarantee under ARBITRARY interference (every value read at every atomic step is havocked) plus the single-cell composition lemma (Verus)"
ENV = "std atomic methods are replaced by the environment model /verif/kani/venv.rs in harnesses carrying kani::stub attributes: values read are arbitrary, compare_exchange_weak may fail at most K times per harness (bounded fairness, unwinding assertions on)"

PLAN = {
    "C01": dict(
        title="Counter increments are never lost and never go backwards",
        level="proof",
        modules=["atomic_c01", "counter_c01"],
        crate_modules=["__venv"],
        verus=["c01_rmw_fold.rs"],
        functions=[],
        assumptions=[A2, ENV, "children of counter vectors are GenericCounter values built by the same constructor (vector get-or-create is C05/C10)"],
    ),
    "C11": dict(
        title="Gauge operations are atomic",
        level="proof",
        modules=["atomic_c01", "gauge_c11"],
        crate_modules=["__venv"],
        verus=["c01_rmw_fold.rs"],
        functions=[],
        assumptions=[A2, ENV, "for f64, sub(x) undoes add(x) only up to IEEE rounding: the contract is c + x + (-x); exact inversion is proved for IntGauge"],
    ),
    "C02": dict(
        title="Every histogram snapshot is one consistent cut of the observations",
        level="other",
        modules=["hist_c08", "hist_c02"],
        crate_modules=["__venv"],
        verus=[],
        functions=[],
        explanation="REDUCED LEVEL. The all-schedules statement (every snapshot is one consistent cut) is NOT decided: it quantifies over interleavings of a multi-location lock-free protocol and over the memory model, which no per-function contract decides. What is machine-checked on the real code, under ARBITRARY interference (every value read at every atomic step havocked), are the per-thread protocol-step guarantees G-obs, G-flush, G-col, G-get: which cells each operation touches, by which single atomic operation, in which order, with which memory ordering, under which lock, and the exit condition of the collector's wait loop. They are necessary conditions of the hand-off argument in the code comments; their sufficiency (A3) is a paper argument.",
        assumptions=[A2, ENV, "A3 the multi-location hand-off protocol theorem (G-obs + G-col + G-get => consistent cut) is NOT machine-checked", "AtomicF64::inc_by is replaced by its contract (one atomic float add), proved separately in C01"],
    ),
    "C03": dict(
        title="Histograms conserve observations across any sequence of collects and flushes",
        level="proof",
        modules=["hist_c08", "hist_c03", "hist_c02"],
        crate_modules=["__venv"],
        verus=["c03_history.rs"],
        functions=[],
        assumptions=[A2, ENV, "sequential histories are decided by induction (step obligations from an arbitrary state satisfying the representation invariant); concurrent histories only through the C02 step guarantees (collector's exit condition = G-col) and assumption A3", "no-overflow precondition: counts < 2^40 per cell in the symbolic state (the code's own limit is 2^63)", "HistogramCore::new's shard construction is represented by Shard::new/ShardAndCount::new (base case); Desc::new is outside this cone"],
    ),
    "C12": dict(
        title="Local (unsync) metrics hand over exactly what they accumulated",
        level="proof",
        maps=True,
        modules=["counter_c01", "counter_c12v", "hist_c08", "hist_c03", "hist_c02", "hist_c18"],
        crate_modules=["__venv"],
        verus=["c01_rmw_fold.rs", "c03_history.rs"],
        functions=[],
        assumptions=[A2, ENV, MAPS_ASSUMPTION, FMT_ASSUMPTION, "ledger invariant 'shared = direct + sum of flushed batches' is proved per step from arbitrary states (sequential) and lifted to all histories by the Verus lemmas (sum_append / conservation); of the local VECTOR forms only GenericLocalCounterVec::remove_label_values + flush are under contract (c12_local_counter_vec_remove: cache built field by field over the collections shim, one label, shared child present or already removed); with_label_values (entry API + closure), clone, drop of the whole vector and all of LocalHistogramVec are NOT: the whole-history harness over one pre-populated child (c12_local_counter_vec_ledger, tier off) ran into the 25-minute limit; their children are the local metrics covered here and their cache is a map keyed by the C05 hash"],
    ),
    "C17": dict(
        title="Fallible APIs report bad input as Err and do not panic",
        level="model_checking",
        maps=True,
        text=True,
        modules=["desc_c09", "registry_c09", "vec_c05", "registry_c06", "text_c04", "hist_c08", "misc_c17"],
        crate_modules=["__vrec"],
        contract_sets=["charset"],
        verus=[],
        functions=[],
        assumptions=[MAPS_ASSUMPTION, FMT_ASSUMPTION, SORT_ASSUMPTION, TEXT_ASSUMPTION, "'no reachable panic' is CBMC's default obligation in EVERY harness of every property (panic!, unwrap, index, arithmetic overflow, unreachable); the harnesses listed here sweep the Result-returning entry points over invalid arguments of bounded size, as the property itself states", "ProtobufEncoder::encode is covered by C13's harness, not here; remove()/get_metric_with() map forms are not under a reliable harness (tier off, see kani/vec_c05.rs)"],
    ),
    "C20": dict(
        title="Registration macros are faithful shorthands for the explicit calls",
        level="model_checking",
        maps=True,
        macros=True,
        modules=["macros_c20"],
        verus=[],
        functions=[],
        assumptions=[MAPS_ASSUMPTION, FMT_ASSUMPTION, SORT_ASSUMPTION, "REDUCED AND BOUNDED: only the CONSTRUCTION macros are decided -- every arm of labels!, opts! and histogram_opts! (with and without trailing comma) on concrete arguments, against the explicit constructor calls; of the REGISTRATION macros only the delegating arms of register_histogram!, register_counter! and register_int_counter! are checked, with their terminal arms (X::with_opts + register) replaced in the scratch copy by the stand-ins __vsup::terminal_histogram_arm / terminal_counter_arm that return the type identifier and options reaching them (regex rewrite of src/macros.rs; lost anchor = undecided); otherwise the REGISTRATION arms (register_* / register_*_with_registry) are NOT decided: expanding one (Counter::with_opts + Registry::register on the real collector) runs out of memory/time under CBMC (measured, harness kept with tier off), the default-registry arms additionally need lazy_static, and 'updates show in that registry's gather' needs gather (out of reach)", "inside the bodies of labels! and opts! `use std::collections::HashMap` is redirected to the collections shim (regex rewrite of exactly those two lines)"],
    ),
    "C18": dict(
        title="A timer records its duration exactly once, or never when discarded",
        level="proof",
        modules=["hist_c08", "hist_c18"],
        verus=[],
        functions=[],
        assumptions=["clock contract assumed: std::time::Instant::now returns some instant; Instant::saturating_duration_since returns SOME Duration (any non-negative span); both are stubs", "moving a timer to another thread does not change its state (ownership); no separate obligation", "nightly-only coarse timers are not built (feature off)"],
    ),
    "C09": dict(
        title="Only well-formed, pairwise distinct names reach an exposed sample",
        level="proof",
        maps=True,
        modules=["desc_c09", "registry_c09", "metrics_c09"],
        crate_modules=["__vrec"],
        contract_sets=["charset"],
        verus=[],
        functions=[],
        assumptions=[MAPS_ASSUMPTION, FMT_ASSUMPTION, SORT_ASSUMPTION, "Desc::new acceptance is decided for one const + one variable label with one-character names over all of ASCII plus concrete scenarios (bounded); the identifier validators are decided on strings of <= 4 chars with one arbitrary Unicode char; per-char classifiers for every char (complete)", "registry-level clause: Registry::new_custom's validation of the prefix and of the common-label names is under contract (enumerated concrete names); that gather() applies them verbatim, and a clash between a common label and a metric's own label, are NOT decided (gather is out of reach)"],
    ),
    "C04": dict(
        title="Text exposition is a faithful, parseable rendering of the gathered state",
        level="model_checking",
        text=True,
        modules=["text_c04"],
        verus=["c04_escape.rs"],
        functions=[],
        assumptions=[TEXT_ASSUMPTION, "escape_string is discharged by exhaustive enumeration of concrete strings over the alphabet {a, backslash, LF, quote, CR, e-acute, CJK} up to length 2 (quick) / 3 (thorough), each executed by CBMC on the real code: bounded, enumerated -- symbolic content is out of reach (measured); the unbounded part is the Verus lemmas over the spec function", "layout functions are checked on concrete families against literal expected text (bounded, enumerated)", "append-only behaviour and equality of encode / encode_utf8 / encode_to_string are an obligation on one concrete family (c04_entry_points_agree_and_append)"],
    ),
    "C05": dict(
        title="A metric vector keeps exactly one child per distinct label-value tuple",
        level="model_checking",
        maps=True,
        modules=["vec_c05", "value_c05"],
        crate_modules=["__vrec"],
        verus=["c05_frame_injective.rs"],
        functions=[],
        assumptions=[MAPS_ASSUMPTION, FMT_ASSUMPTION, "FnvHasher is replaced by a byte-stream recorder in the hash-level harnesses; A1: the 64-bit FNV-1a result is a function of the stream and distinct streams do not collide", "vector-logic harnesses instantiate MetricVecCore with a light builder defined in the harness (children remember what they were built from); the real builders are under separate obligations: make_label_pairs (label set = declared names x supplied values + const pairs, sorted) is under its own obligation; the builders themselves (Opts::describe -> Desc::new -> Value::new with a label: > 15 min under CBMC, measured; kani/counter_c05.rs kept but not registered) are not, so the clause starts-from-zero rests on reading `P::T::from_i64(0)` in with_opts_and_label_values", SORT_ASSUMPTION],
    ),
    "C10": dict(
        title="Concurrent use of a metric vector is linearizable",
        level="model_checking",
        maps=True,
        modules=["vec_c05"],
        crate_modules=["__vrec"],
        verus=[],
        functions=[],
        assumptions=[MAPS_ASSUMPTION, FMT_ASSUMPTION, "linearizability by lock composition: parking_lot::RwLock gives mutual exclusion (A1) and guards are the only access path to the map (Rust typing); what is machine-checked is the sequential contract of every critical section from an arbitrary map state and the lock discipline (each operation's effect inside exactly one write-guard section, read-side fast path effect-free, no guard held on return, no acquisition while holding). No interleaving is explored."],
    ),
    "C06": dict(
        title="Registry admission is exact and a failed registration leaves no trace",
        level="model_checking",
        maps=True,
        modules=["registry_c06"],
        verus=[],
        functions=[],
        assumptions=[MAPS_ASSUMPTION, FMT_ASSUMPTION, "collectors are harness structs with literal descriptors (ids and dimension hashes symbolic over all u64, names from {\"\", \"a\"}); that descriptor identity is structural (id/dim_hash are faithful hashes of name, const-label values, help and label names) is C15", "no accidental 64-bit collision between a collector id (wrapping sum of descriptor ids) and an unrelated registered collector id"],
    ),
    "C15": dict(
        title="Descriptor identity is structural",
        level="model_checking",
        maps=True,
        modules=["desc_c15"],
        crate_modules=["__vrec"],
        verus=["c05_frame_injective.rs"],
        functions=[],
        assumptions=[MAPS_ASSUMPTION, FMT_ASSUMPTION, SORT_ASSUMPTION, "the real FNV-1a hasher is executed; the harnesses compare Desc.id / Desc.dim_hash with FNV-1a of the framed streams (fq_name, const values / help, sorted '$'-prefixed variable names and const names, each followed by 0xFF); 'equal hash <=> equal content' then follows from the Verus framing lemma and A1 (no 64-bit collision; the property itself is stated up to collisions)", "BOUND: one const label (two const labels did not finish under CBMC in 15 min even on concrete input), so independence of the const-label supply/iteration order is NOT decided by a harness; it rests on the assumed contracts of BTreeSet (sorted iteration) and slice::sort", "UTF-8 strings never contain the separator byte 0xFF (precondition of the injectivity lemma)"],
    ),
    "C16": dict(
        title="Exposition does not depend on the protobuf feature",
        level="proof",
        modules=["model_c16"],
        scripts=["c16_closure.py"],
        verus=[],
        functions=[],
        assumptions=["the argument is: (1) the accessor algebra (defaults, set/get, frame, take, from_*, LabelPair order) holds for BOTH data models -- the same harness text is compiled and proved under --no-default-features and under default features; (2) every model accessor called from feature-independent source is in that algebra (mechanical closure check tools/c16_closure.py); hence the same client code computes the same gather() structure and text bytes. Step (2)->conclusion is a paper argument (observational equivalence of two implementations of one abstract data type)", "derive(Debug) of MetricType (used for the `# TYPE` line through format!) prints the variant name in both models: assumed (std formatting is out of CBMC's reach here)", "the protobuf crate's MessageField / EnumOrUnknown wrappers are executed as compiled, not assumed"],
    ),
    "C08": dict(
        title="Bucket counts follow 'value <= upper bound' for every input",
        level="proof",
        modules=["hist_c08", "hist_c03"],
        verus=["c08_cumulative.rs"],
        functions=[
            "histogram::check_and_adjust_buckets", "histogram::HistogramCore::observe",
            "histogram::HistogramCore::proto", "histogram::LocalHistogramCore::observe",
        ],
        assumptions=[],
    ),
}


def inject_spec(pid: str, features: str = "plain"):
    p = PLAN[pid]
    spec = {"crate_modules": [], "modules": {}, "redirects": [], "contracts": [], "crate_attrs": []}
    for name in ["__vsup"] + p.get("crate_modules", []):
        spec["crate_modules"].append((name, CRATE_MODULES[name]))
    for m in p["modules"]:
        rel, f = MODULES[m]
        spec["modules"].setdefault(rel, []).append(("__v_" + m, f))
    spec["redirects"] = list(p.get("redirects", []))
    if p.get("maps"):
        spec["crate_modules"].append(("__vcoll", CRATE_MODULES["__vcoll"]))
        spec["redirects"] += MAP_REDIRECTS
        spec["replacements"] = list(FMT_REDIRECTS)
        spec["regex_replacements"] = list(FMT_REGEX_REDIRECTS)
    if p.get("macros"):
        spec["regex_replacements"] = spec.get("regex_replacements", []) + list(MACRO_REGEX_REDIRECTS)
    if p.get("text"):
        spec["replacements"] = spec.get("replacements", []) + list(TEXT_REDIRECTS)
        spec["regex_replacements"] = spec.get("regex_replacements", []) + list(TEXT_REGEX_REDIRECTS)
    spec["contracts"] = list(p.get("contracts", []))
    for cs in p.get("contract_sets", []):
        spec["contracts"] += CONTRACTS[cs]
    spec["crate_attrs"] = list(p.get("crate_attrs", []))
    return spec

NOT_APPLICABLE = {
    "C13": "ProtobufEncoder::encode delegates to the protobuf crate's write_length_delimited_to_writer over the generated proto/proto_model.rs; executing that runtime under Kani/CBMC on the smallest concrete family (name, type, one empty metric; kani/pb_c13.rs, kept but not registered) ran into the 15-minute limit for both harnesses (measured), the method cannot be stubbed per receiver type, and neither Verus nor Kani can take generated code plus a third-party runtime under contract; the only part within reach, check_metric_family's refusal of nameless/empty families, is discharged under C17 (text encoder harness c17_encode_every_metric_type_no_panic).",
    "C07": "RegistryCore::gather does not finish under CBMC: with the collections shim, sort_by and format! replaced by their contracts, a registry holding ONE collector with ONE sample ran into the 60-minute limit with two common labels (c07_common_labels_order0) and into a 25-minute limit even without prefix and labels (c07_gather_single_collector_minimal), and so did every two-collector scenario (measured; moves of the ~200-byte Metric/MetricFamily structs through vectors and the string-keyed BTreeMap dominate). No contract on gather() can therefore be discharged here; the harness text is kept in kani/registry_c07.rs but is not registered. Verus cannot take the function (BTreeMap entry API, iterator adapters, closures).",
    "C14": "same function as C07 (RegistryCore::gather merges families by name without looking at the type): out of CBMC's reach (measured, 60-minute limit). Reading the code shows the defect the property describes (a counter and a gauge sharing name and help are merged into one family whose declared type is that of the first collector iterated), but no check of this framework decides it, so it is neither claimed nor listed as a known finding; see DESIGN.md.",
    "C19": "quantifies over all make_static_metric! declarations: the code is a proc-macro token-stream generator (syn/quote); no contract on a token builder can express 'the generated item addresses child X', and checking a few fixed expansions has no symbolic input (DESIGN.md section 5 C19)",
}


LEVEL_TEXT = {
    "C01": "per-call atomic-step contracts of every counter operation discharged by CBMC under arbitrary interference (every value read at every atomic step havocked, every f64/u64 delta), sequential functional contracts, and an unbounded Verus composition lemma for one atomic cell; schedules are covered by composition (A2), not explored; CAS retries bounded (K=1 quick, up to 66 refusals for the never-gives-up obligation)",
    "C02": "REDUCED: only the per-thread protocol-step guarantees (cells, order, orderings, lock, wait-loop exit) are machine-checked under arbitrary interference; the consistent-cut statement over all schedules is not decided",
    "C03": "inductive step obligations of the two-shard representation invariant from ARBITRARY invariant states (values complete, B<=3/4 buckets bounded) + Verus lemma lifting them to every finite sequential history; concurrent histories only through C02's steps",
    "C04": "bounded/enumerated: escape_string on every string of length <= 2 over an adversarial 7-symbol alphabet, layout functions on concrete families against literal text, find_first_occurence symbolically; unbounded Verus lemmas on the escaping spec (round trip, no raw LF, quotes cannot close)",
    "C05": "bounded: hasher byte streams of two symbolic tuples are equal only if the tuples are equal (2 labels x <=2 bytes), map-form and positional cardinality errors, make_label_pairs on concrete scenarios; unbounded Verus framing-injectivity lemma; FNV collision freedom assumed",
    "C06": "bounded: register/unregister pre/post incl. frame-on-failure over an abstract registry view with <=1 registered collector and <=2 incoming descriptors, ids and dimension hashes complete over u64",
    "C08": "check_and_adjust_buckets acceptance <=> spec over every f64 bit pattern (lengths 0-3/4), first-fit rule on both observe paths from arbitrary pre-states, cumulative counts; unbounded Verus lemma (any number of buckets and observations) from exactly the three facts Kani discharges",
    "C09": "per-char classifiers as genuine kani::ensures contracts proved for every char; identifier validators on strings of <=4 chars with one arbitrary Unicode char; Desc::new acceptance <=> spec for one const + one variable label with names over all of ASCII; build_fq_name, check_bucket_label, Registry::new_custom validation on enumerated inputs",
    "C10": "bounded: sequential contract of every critical section of MetricVecCore from an arbitrary abstract map of <=2 children (keys complete over u64) + lock-discipline obligations from the lock shim's ghost state; linearizability by lock composition is an argument, schedules are not explored",
    "C11": "as C01 for gauges: one 64-bit store / one atomic add per operation (f64 and i64), sub = add of the negation, exact inversion for i64, discharged under arbitrary interference",
    "C12": "ledger step obligations (local updates event-free, flush hands over exactly the pending batch once, reset/clear/clone/drop) from arbitrary states plus histories built only through public operations; Verus lemmas lift to all histories; of the local vector forms only LocalCounterVec removal+flush is under contract (bounded)",
    "C15": "bounded/enumerated: Desc.id / Desc.dim_hash equal FNV-1a of the framed streams (real hasher) for concrete descriptors incl. empty values, boundary shifts and unsorted variable labels; unbounded framing lemma; one const label only",
    "C16": "the accessor algebra of the exposition data model proved with the same harness text against BOTH data models (scalar fields complete over f64/u64/i64) + mechanical closure check that feature-independent code uses only contracted accessors",
    "C17": "bounded, as the property itself states: CBMC's reachable-panic obligations plus Err/Ok specs on the Result-returning entry points over invalid arguments (names, label cardinalities, bucket parameters over every f64, every MetricType)",
    "C18": "timer state machine for every way of ending a shared or local timer and every Duration the clock contract allows: exactly one observation / none when discarded, >= 0 s, returned = recorded; loop-free, complete modulo the clock stubs",
}
for _k, _v in LEVEL_TEXT.items():
    if _k in PLAN:
        PLAN[_k]["level_text"] = _v

LEVEL_TEXT["C20"] = "REDUCED, bounded/enumerated: every arm of labels!, opts!, histogram_opts! equals the explicit constructor call on concrete arguments; of the registration macros only the DELEGATING arms of register_histogram!, register_counter! and register_int_counter! are checked (they forward type, name, help and buckets unchanged to the terminal arm, which is replaced by a contract stand-in); terminal registration arms and all other register_* macros are not decided (out of CBMC's reach, measured)"
PLAN["C20"]["level_text"] = LEVEL_TEXT["C20"]
