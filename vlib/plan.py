"""Per-property verification plan: which harness modules are injected where, which Verus
files are checked, which assumptions and functions are reported."""
from pathlib import Path

VERIF = Path(__file__).resolve().parent.parent
K = VERIF / "kani"
S = VERIF / "shims"

# assumptions that hold for every Kani-based check (DESIGN.md section 4)
GLOBAL_ASSUMPTIONS = [
    "A1 dependency contracts assumed, not proved: parking_lot (mutual exclusion; executable-contract shim /verif/shims/parking_lot), memchr (first index of a needle; shim /verif/shims/memchr), std collections, FnvHasher (a function of its byte stream; 64-bit collision freedom assumed where identity is 'up to hash collisions'), std Display/FromStr of f64/i64",
    "A5 debug_assert! is enabled in verification builds",
    "A6 Kani/CBMC is bit-precise for machine integers and IEEE-754 doubles; termination is not proved by Kani",
    "verification build = /repo working tree copied to a scratch dir + cfg(kani)-guarded child modules appended to source files; Cargo deps parking_lot and memchr replaced by shims; dev-dependencies/benches/examples/static-metric stripped from the scratch manifest",
    "alloc::fmt::format is stubbed (returns an empty String) in harnesses marked so: error-message text is not part of any contract",
    "CBMC property class 'NaN on ...' is ignored (inf + -inf is legitimate here); all other CBMC safety checks (bounds, overflow, pointer, unwrap/panic) are obligations",
]

# module name -> (source file it becomes a child of, harness file)
MODULES = {
    "hist_c08": ("src/histogram.rs", K / "hist_c08.rs"),
}

CRATE_MODULES = {
    "__vsup": K / "vsup.rs",
}


def modpath(rel: str, modname: str) -> str:
    p = rel[len("src/"):-len(".rs")].replace("/", "::")
    if p.endswith("::mod"):
        p = p[: -len("::mod")]
    return "%s::__v_%s" % (p, modname)


PLAN = {
    "C08": dict(
        title="Bucket counts follow 'value <= upper bound' for every input",
        level="proof",
        modules=["hist_c08"],
        verus=["c08_cumulative.rs"],
        functions=[
            "histogram::check_and_adjust_buckets", "histogram::HistogramCore::observe",
            "histogram::HistogramCore::proto", "histogram::LocalHistogramCore::observe",
        ],
        assumptions=[],
    ),
}


def inject_spec(pid: str, features: str = "plain"):
    p = PLAN[pid]
    spec = {"crate_modules": [], "modules": {}, "redirects": [], "contracts": [], "crate_attrs": []}
    for name in ["__vsup"] + p.get("crate_modules", []):
        spec["crate_modules"].append((name, CRATE_MODULES[name]))
    for m in p["modules"]:
        rel, f = MODULES[m]
        spec["modules"].setdefault(rel, []).append(("__v_" + m, f))
    spec["redirects"] = list(p.get("redirects", []))
    spec["contracts"] = list(p.get("contracts", []))
    spec["crate_attrs"] = list(p.get("crate_attrs", []))
    return spec
