"""Parse `//@ key: value` metadata blocks that precede each Kani harness."""
import re
from pathlib import Path

KEYS = {"id", "prop", "tier", "strength", "fn", "obligation", "known", "features", "replay", "expect"}


class Harness:
    def __init__(self, d, file: Path, line: int):
        self.id = d["id"]
        self.props = [p.strip() for p in d.get("prop", "").split(",") if p.strip()]
        self.tier = d.get("tier", "quick")
        self.strength = d.get("strength", "")
        self.fn = [f.strip() for f in d.get("fn", "").split(",") if f.strip()]
        self.obligation = d.get("obligation", "")
        self.known = d.get("known")  # id of a known finding this harness pins
        self.features = d.get("features", "plain")  # plain | proto | both
        self.replay = d.get("replay")  # name of a public-API replay template
        self.expect = d.get("expect", "pass")
        self.file = file
        self.line = line
        self.modpath = None  # filled by the plan: e.g. histogram::__v_hist_c08

    @property
    def complete(self):
        s = self.strength.lower()
        return s.startswith("complete") or s.startswith("unbounded")

    def fq(self):
        return "%s::%s" % (self.modpath, self.id)


def parse_file(path: Path):
    out = []
    cur = {}
    start = None
    lines = path.read_text().splitlines()
    for i, line in enumerate(lines):
        m = re.match(r"\s*//@\s*([a-z_]+)\s*:\s*(.*)$", line)
        if m:
            k, v = m.group(1), m.group(2).strip()
            if k not in KEYS:
                raise ValueError("%s:%d: unknown metadata key %s" % (path, i + 1, k))
            if not cur:
                start = i + 1
            if k in cur and k == "obligation":
                cur[k] += " " + v
            else:
                cur[k] = v
            continue
        if cur:
            # attributes may follow; the block ends at the fn line
            fm = re.match(r"\s*(?:pub(?:\([a-z]+\))?\s+)?fn\s+([A-Za-z0-9_]+)\s*\(", line)
            if fm:
                if fm.group(1) != cur.get("id"):
                    raise ValueError("%s:%d: metadata id %r does not match fn %r" % (path, i + 1, cur.get("id"), fm.group(1)))
                out.append(Harness(cur, path, start))
                cur = {}
            elif line.strip() and not line.strip().startswith("#[") and not line.strip().startswith("//"):
                raise ValueError("%s:%d: metadata block not followed by fn" % (path, i + 1))
    if cur:
        raise ValueError("%s: dangling metadata block" % path)
    return out
