"""Copy /repo's working tree to a scratch directory and apply the verification injections.

Nothing here edits /repo.  Everything injected is guarded by `cfg(kani)` (set only by the
Kani compiler), except the two Cargo-level dependency substitutions (parking_lot, memchr)
which exist only in the scratch copy.

A lost anchor raises InjectError -> the driver exits 2 ("undecided"), never an alarm.
"""
import os
import re
import shutil
import subprocess
from pathlib import Path

VERIF = Path(__file__).resolve().parent.parent
REPO = Path(os.environ.get("VERIF_REPO", "/repo"))


class InjectError(Exception):
    pass


def copy_repo(dst: Path, repo: Path = REPO):
    """rsync the working tree (not .git, not target) to dst/repo."""
    dst.mkdir(parents=True, exist_ok=True)
    out = dst / "repo"
    if out.exists():
        shutil.rmtree(out)
    subprocess.run(
        ["rsync", "-a", "--exclude", "/target", "--exclude", "/.git", "--exclude", "/static-metric/target", "--exclude", "/_seed", "--exclude", "/_*",
         str(repo) + "/", str(out) + "/"],
        check=True,
    )
    return out


def _strip_sections(toml: str, headers):
    """Remove whole TOML tables whose header line is in `headers` (or array tables)."""
    out = []
    skipping = False
    for line in toml.splitlines(keepends=True):
        m = re.match(r"^\s*(\[\[?[^\]]+\]\]?)\s*$", line)
        if m:
            skipping = m.group(1) in headers
        if not skipping:
            out.append(line)
    return "".join(out)


def patch_cargo(root: Path):
    """Dependency substitution + removal of parts the verification build does not need."""
    p = root / "Cargo.toml"
    s = p.read_text()
    s = _strip_sections(s, {"[dev-dependencies]", "[[bench]]", "[[example]]", "[workspace]"})
    n = 0
    for name in ("parking_lot", "memchr"):
        pat = re.compile(r"^%s\s*=.*$" % re.escape(name), re.M)
        if not pat.search(s):
            raise InjectError("Cargo.toml: dependency line for %s not found" % name)
        s = pat.sub('%s = { path = "%s" }' % (name, VERIF / "shims" / name), s, count=1)
        n += 1
    s += "\n[workspace]\n"
    s += "\n[lints.rust]\nunexpected_cfgs = { level = \"allow\", check-cfg = ['cfg(kani)'] }\n"
    p.write_text(s)
    cfgdir = root / ".cargo"
    cfgdir.mkdir(exist_ok=True)
    (cfgdir / "config.toml").write_text("[net]\noffline = true\n")
    # benches/examples are gone from the manifest; remove auto-discovered targets too
    for d in ("benches", "examples"):
        if (root / d).exists():
            shutil.rmtree(root / d)
    sm = root / "static-metric"
    if sm.exists():
        shutil.rmtree(sm)


def append_child_module(root: Path, rel: str, modname: str, target: Path):
    f = root / rel
    if not f.exists():
        raise InjectError("%s: file not found" % rel)
    if not target.exists():
        raise InjectError("harness file %s missing" % target)
    with f.open("a") as fh:
        fh.write('\n#[cfg(kani)]\n#[path = "%s"]\nmod %s;\n' % (target, modname))


def add_crate_module(root: Path, modname: str, target: Path):
    """crate-level support module (pub(crate)) declared in lib.rs."""
    f = root / "src/lib.rs"
    s = f.read_text()
    anchor = "#[macro_use]\nmod macros;"
    if anchor not in s:
        raise InjectError("src/lib.rs: anchor `#[macro_use] mod macros;` not found")
    decl = '#[cfg(kani)]\n#[allow(missing_docs, missing_debug_implementations, dead_code, unused)]\n#[path = "%s"]\npub(crate) mod %s;\n' % (target, modname)
    s = s.replace(anchor, decl + anchor, 1)
    f.write_text(s)


def add_crate_attr(root: Path, attr: str):
    f = root / "src/lib.rs"
    s = f.read_text()
    # crate attributes must precede items; the file starts with a doc comment block /*! */
    m = re.search(r"^#!\[allow\(", s, re.M)
    if not m:
        raise InjectError("src/lib.rs: anchor `#![allow(` not found")
    s = s[: m.start()] + attr + "\n" + s[m.start():]
    f.write_text(s)


def redirect_use(root: Path, rel: str, old: str, new: str):
    """Replace one `use` line by a cfg(kani)-switched pair.  `old` must occur exactly once
    outside test modules (first occurrence is taken; the cfg(test) modules are not built)."""
    f = root / rel
    s = f.read_text()
    if old not in s:
        raise InjectError("%s: use-line anchor `%s` not found" % (rel, old))
    repl = "#[cfg(not(kani))]\n%s\n#[cfg(kani)]\n%s" % (old, new)
    s = s.replace(old, repl, 1)
    f.write_text(s)


def replace_text(root: Path, rel: str, old: str, new: str):
    """exact-text replacement of one expression (must occur exactly once in the non-test part)"""
    f = root / rel
    s = f.read_text()
    cut = s.find("#[cfg(test)]\nmod tests")
    head = s if cut < 0 else s[:cut]
    if head.count(old) != 1:
        raise InjectError("%s: replacement anchor `%s` occurs %d times" % (rel, old, head.count(old)))
    f.write_text(s.replace(old, new, 1))


def replace_regex(root: Path, rel: str, rx: str, repl: str, min_count: int = 1):
    """regex replacement in the non-test part of a file; at least `min_count` matches required"""
    f = root / rel
    s = f.read_text()
    cut = s.find("#[cfg(test)]\nmod tests")
    head, tail = (s, "") if cut < 0 else (s[:cut], s[cut:])
    head2, n = re.subn(rx, repl, head)
    if n < min_count:
        raise InjectError("%s: regex anchor /%s/ matched %d times (< %d)" % (rel, rx, n, min_count))
    f.write_text(head2 + tail)


def insert_before_fn(root: Path, rel: str, fn_sig_regex: str, text: str):
    """Insert attribute text on the line before the (unique) function signature matching
    the regex (searched in the non-test part of the file)."""
    f = root / rel
    s = f.read_text()
    cut = s.find("#[cfg(test)]\nmod tests")
    head = s if cut < 0 else s[:cut]
    ms = list(re.finditer(fn_sig_regex, head, re.M))
    if len(ms) != 1:
        raise InjectError("%s: anchor /%s/ matched %d times" % (rel, fn_sig_regex, len(ms)))
    m = ms[0]
    # go back over preceding attribute / doc lines? attributes may be placed directly before `fn`
    line_start = head.rfind("\n", 0, m.start()) + 1
    indent = re.match(r"[ \t]*", head[line_start:]).group(0)
    ins = "".join(indent + l + "\n" for l in text.strip("\n").splitlines())
    s = s[:line_start] + ins + s[line_start:]
    f.write_text(s)


def apply(root: Path, spec: dict):
    """spec keys: modules {rel: [(modname, file)]}, crate_modules [(name, file)],
    crate_attrs [str], redirects [(rel, old, new)], contracts [(rel, regex, text)]"""
    patch_cargo(root)
    for attr in spec.get("crate_attrs", []):
        add_crate_attr(root, attr)
    for name, target in spec.get("crate_modules", []):
        add_crate_module(root, name, Path(target))
    for rel, old, new in spec.get("redirects", []):
        redirect_use(root, rel, old, new)
    for rel, old, new in spec.get("replacements", []):
        replace_text(root, rel, old, new)
    for rel, rx, repl, mn in spec.get("regex_replacements", []):
        replace_regex(root, rel, rx, repl, mn)
    for rel, rx, text in spec.get("contracts", []):
        insert_before_fn(root, rel, rx, text)
    for rel, mods in spec.get("modules", {}).items():
        for modname, target in mods:
            append_child_module(root, rel, modname, Path(target))
