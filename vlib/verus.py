"""Verus back end: (a) lemma files over the contracts' spec functions (unbounded),
(b) leaf functions extracted mechanically from /repo on every run (see verus/extract.py)."""
import json
import os
import re
import subprocess
import time
from pathlib import Path

from . import plan

VERIF = plan.VERIF
VDIR = VERIF / "verus"

VIOLATION_PAT = re.compile(r"error: (postcondition not satisfied|assertion failed|precondition not satisfied|possible arithmetic underflow/overflow|possible bit shift underflow/overflow|invariant not satisfied|possible division by zero)")


def run_verus(path: Path, cwd: Path, timeout=600):
    cmd = ["verus", str(path), "--output-json", "--time", "--num-threads", "8"]
    t0 = time.time()
    try:
        p = subprocess.run(cmd, cwd=str(cwd), stdout=subprocess.PIPE, stderr=subprocess.PIPE, text=True, timeout=timeout)
    except subprocess.TimeoutExpired:
        return None, "timeout", time.time() - t0, " ".join(cmd)
    js = None
    try:
        start = p.stdout.index("{")
        js = json.loads(p.stdout[start:])
    except Exception:
        js = None
    return js, p.stderr, time.time() - t0, " ".join(cmd)


def list_items(text):
    """names of proof/exec functions in a verus file (for evidence samples)"""
    return re.findall(r"^\s*(?:pub\s+)?(?:broadcast\s+)?(proof fn|fn)\s+([A-Za-z0-9_]+)", text, re.M)


def run_all(pid, P, sd, tier):
    out = []
    files = list(P.get("verus", []))
    for f in files:
        src = VDIR / f
        kind = "lemma"
        text = None
        if f.endswith(".extract.py"):
            # extraction script: produces a .rs file from /repo's current source
            kind = "code"
            gen = sd / (Path(f).name.replace(".extract.py", "_extracted.rs"))
            env = dict(os.environ)
            env["PYTHONPATH"] = str(VERIF)
            p = subprocess.run(["python3", str(src), str(gen)], stdout=subprocess.PIPE, stderr=subprocess.STDOUT, text=True, env=env)
            if p.returncode != 0 or not gen.exists():
                out.append({"file": f, "kind": kind, "status": "undecided", "detail": "extraction failed: " + p.stdout[-400:], "obligations": 0, "discharged": 0, "cmd": "", "errors": []})
                continue
            extraction_note = p.stdout.strip()
            src = gen
        else:
            extraction_note = None
        text = src.read_text()
        js, err, wall, cmd = run_verus(src, sd)
        items = list_items(text)
        rec = {"file": f, "kind": kind, "cmd": cmd, "wall_s": round(wall, 1), "backend": "Verus 0.2026.09.13 / Z3",
               "items": ["%s %s" % (k, n) for k, n in items], "extraction": extraction_note, "errors": [], "output": err}
        if js is None:
            rec.update(status="undecided", detail="verus produced no JSON: " + (err or "")[-300:], obligations=0, discharged=0)
            out.append(rec)
            continue
        vr = js.get("verification-results", {})
        verified, errors = vr.get("verified", 0), vr.get("errors", 0)
        smt = ((js.get("times-ms") or {}).get("smt") or {}).get("total")
        rec.update(obligations=verified + errors, discharged=verified, smt_ms=smt)
        rec["samples"] = [{"verus_item": "%s %s" % (k, n), "file": f, "backend": "Verus/Z3"} for k, n in items[:3]]
        if vr.get("success") and errors == 0 and verified > 0:
            rec.update(status="ok", detail="")
        elif verified + errors == 0:
            rec.update(status="undecided", detail="zero obligations / front-end error: " + (err or "")[-300:])
        else:
            msgs = re.findall(r"^error: .*$", err or "", re.M)
            rec["errors"] = [{"kind": "violation" if VIOLATION_PAT.match(m) else "other", "description": m} for m in msgs if "aborting due to" not in m]
            if kind == "code" and rec["errors"] and all(e["kind"] == "violation" for e in rec["errors"]):
                rec.update(status="violation", detail="; ".join(m for m in msgs[:3]))
            else:
                # a failing pure lemma is a defect of the machinery, not of /repo
                rec.update(status="undecided", detail="; ".join(msgs[:3]))
        out.append(rec)
    return out


def scan_assumptions(P):
    """mechanical scan of the Verus sources of this property for trusted escapes"""
    found = []
    for f in P.get("verus", []):
        p = VDIR / f
        if not p.exists():
            continue
        t = p.read_text()
        for kw in ("assume(", "admit(", "external_body", "assume_specification", "uninterp ", "#[verifier::external"):
            n = t.count(kw)
            if n:
                found.append("verus/%s uses `%s` x%d" % (f, kw.strip("( "), n))
    return found
