#!/usr/bin/env python3
"""C16 client-closure check: every data-model accessor called from feature-independent source is
under contract in kani/model_c16.rs (CONTRACTED list).  usage: c16_closure.py <repo-root>
exit 0: closed; exit 3: an accessor is used that has no contract (=> undecided, extend the algebra)."""
import re, sys
from pathlib import Path
root = Path(sys.argv[1])
verif = Path(__file__).resolve().parent.parent
model = (root / "src/plain_model.rs").read_text()
M = set(re.findall(r"pub fn (\w+)", model))
contracted = set()
for l in (verif / "kani/model_c16.rs").read_text().splitlines():
    m = re.match(r"//!\s*CONTRACTED:\s*(.*)", l)
    if m:
        contracted |= set(m.group(1).split())
files = ["src/value.rs", "src/histogram.rs", "src/vec.rs", "src/registry.rs", "src/metrics.rs", "src/counter.rs",
         "src/gauge.rs", "src/pulling_gauge.rs", "src/desc.rs", "src/encoder/text.rs", "src/encoder/mod.rs", "src/auto_flush.rs"]
used = {}
for f in files:
    p = root / f
    if not p.exists():
        print("missing file", f); sys.exit(3)
    s = p.read_text()
    cut = s.find("#[cfg(test)]\nmod tests")
    if cut >= 0:
        s = s[:cut]
    for name in re.findall(r"[.:](\w+)\(", s):
        if name in M:
            used.setdefault(name, set()).add(f)
missing = {n: sorted(fs) for n, fs in used.items() if n not in contracted and n != "new"}
print("model accessors defined: %d, used by feature-independent source: %d, under contract: %d" % (len(M), len(used), len(contracted)))
print("used:", " ".join(sorted(used)))
if missing:
    print("NOT UNDER CONTRACT:", missing)
    sys.exit(3)
sys.exit(0)
