#!/usr/bin/env python3
"""Confirm a seeded change in its scratch worktree and store it under /verif/seeded/<name>/.
usage: confirm_seed.py <worktree> <name>
Checks: (1) `git diff -- src` equals _seed/patch.diff; (2) existing suite passes with the change;
(3) the demonstration fails with the change; (4) it passes with the change reverted."""
import json, os, re, shutil, subprocess, sys, time
from pathlib import Path

wt = Path(sys.argv[1]); name = sys.argv[2]
seed = wt / "_seed"
out = Path("/verif/seeded") / name
env = dict(os.environ, CARGO_NET_OFFLINE="true")

def sh(cmd, cwd, timeout=1800):
    p = subprocess.run(cmd, cwd=str(cwd), shell=True, executable="/bin/bash", stdout=subprocess.PIPE, stderr=subprocess.STDOUT, text=True, env=env, timeout=timeout)
    return p.returncode, p.stdout

def demo_cmd():
    demo = seed / "demo"
    how = (seed / "how_to_run.txt").read_text() if (seed / "how_to_run.txt").exists() else ""
    if (demo / "tests").exists():
        return "cargo test --offline 2>&1 | tail -40"
    m = re.search(r"cargo run[^\n]*", how)
    if m:
        return m.group(0).split("#")[0].strip() + " 2>&1 | tail -20"
    m = re.search(r"cargo build --release --offline && (\./target/release/[\w-]+)", how)
    if m:
        return "cargo build --release --offline 2>&1 | tail -3 && " + m.group(1) + " 2>&1 | tail -20"
    return "cargo run --release --offline 2>&1 | tail -20"

res = {}
rc, d = sh("git diff -- src", wt)
res["diff_matches_patch"] = d.strip() == (seed / "patch.diff").read_text().strip()
rc, o = sh("cargo test --workspace --offline 2>&1 | grep -E '^test result|FAILED|failed' | head -20", wt)
res["suite_with_change"] = o.strip().splitlines()
res["suite_passes_with_change"] = bool(o.strip()) and "FAILED" not in o and " 0 failed" in o
cmd = demo_cmd()
res["demo_cmd"] = cmd
rc1, o1 = sh("set -o pipefail; " + cmd, seed / "demo")
res["demo_with_change_rc"] = rc1
res["demo_with_change_tail"] = o1.strip().splitlines()[-8:]
sh("git apply -R _seed/patch.diff", wt)
rc2, o2 = sh("set -o pipefail; " + cmd, seed / "demo")
res["demo_without_change_rc"] = rc2
res["demo_without_change_tail"] = o2.strip().splitlines()[-5:]
sh("git apply _seed/patch.diff", wt)
res["confirmed"] = bool(res["diff_matches_patch"] and res["suite_passes_with_change"] and rc1 != 0 and rc2 == 0)
out.mkdir(parents=True, exist_ok=True)
shutil.copy(seed / "patch.diff", out / "patch.diff")
if (out / "demo").exists():
    shutil.rmtree(out / "demo")
shutil.copytree(seed / "demo", out / "demo", ignore=shutil.ignore_patterns("target"))
for f in ("how_to_run.txt",):
    if (seed / f).exists():
        shutil.copy(seed / f, out / f)
meta = json.loads((seed / "meta.json").read_text()) if (seed / "meta.json").exists() else {}
meta["confirmation_by_main_session"] = res
meta["confirmed_at"] = time.strftime("%Y-%m-%dT%H:%M:%S")
(out / "meta.json").write_text(json.dumps(meta, indent=1))
print(name, "confirmed" if res["confirmed"] else "NOT CONFIRMED", json.dumps({k: res[k] for k in ("diff_matches_patch", "suite_passes_with_change", "demo_with_change_rc", "demo_without_change_rc")}))
