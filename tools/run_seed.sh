#!/bin/bash
# usage: tools/run_seed.sh <worktree> <name> <PID> [<PID>...]   -- run checks against a seeded worktree (not /repo)
wt=$1; name=$2; shift 2
mkdir -p /verif/seeded/$name
for pid in "$@"; do
  out=/verif/seeded/$name/check-$pid.log
  VERIF_REPO=$wt VERIF_EVIDENCE_DIR=/tmp/seed-evidence ./check $pid --tier quick > $out 2>&1
  echo "$name $pid exit=$? $(grep -c '^VIOLATION' $out) violation-lines" | tee -a /verif/seeded/$name/results.txt
  grep -E "^VIOLATION|failed obligation|UNDECIDED" $out | head -6
done
