#!/bin/bash
# usage: tools/run_all.sh [tier]  -- run every claimed check (VERIF_PARALLEL at a time, default 2; C12 and C10 peak near 40 GB, use 1 when unsure), print exit codes
tier=${1:-quick}
cd "$(dirname "$0")/.."
ids=$(python3 -c "import json; print(' '.join(c['property_id'] for c in json.load(open('MANIFEST.json'))['checks']))")
mkdir -p /tmp/runall
run() { ./check $1 --tier $tier > /tmp/runall/$1.log 2>&1; echo "$1 exit=$? $(tail -1 /tmp/runall/$1.log | grep -oE 'wall [0-9]+s')"; }
export -f run; export tier
printf "%s\n" $ids | xargs -P ${VERIF_PARALLEL:-2} -I{} bash -c 'run {}'
