#!/bin/bash
# usage: tools/run_all.sh [tier]  -- run every claimed check (2 at a time), print exit codes
tier=${1:-quick}
cd "$(dirname "$0")/.."
ids=$(python3 -c "import json; print(' '.join(c['property_id'] for c in json.load(open('MANIFEST.json'))['checks']))")
mkdir -p /tmp/runall
run() { ./check $1 --tier $tier > /tmp/runall/$1.log 2>&1; echo "$1 exit=$? $(tail -1 /tmp/runall/$1.log | grep -oE 'wall [0-9]+s')"; }
export -f run; export tier
printf "%s\n" $ids | xargs -P 2 -I{} bash -c 'run {}'
