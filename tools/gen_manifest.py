#!/usr/bin/env python3
"""Regenerate /verif/MANIFEST.json from vlib/plan.py (claimed checks) and NOT_APPLICABLE."""
import json, sys
from pathlib import Path
sys.path.insert(0, str(Path(__file__).resolve().parent.parent))
from vlib import plan

props = [json.loads(l) for l in open(plan.VERIF / "properties.jsonl")]
claimed = [p["id"] for p in props if p["id"] in plan.PLAN and plan.PLAN[p["id"]].get("claimed", True)]
m = {
    "version": 1,
    "setup_cmd": "true",
    "hooks": {
        "guard": "kani",
        "enable": "no hook is committed to /repo: every check copies /repo's working tree to a scratch directory and appends cfg(kani)-guarded child modules (contracts + proof harnesses) there; cfg(kani) is set only by the Kani compiler",
        "baseline_off_cmd": "cd /repo && cargo test --workspace --no-fail-fast --offline",
        "source_commits": [],
        "add_only": True,
    },
    "engines": [{
        "name": "kani-contracts", "path": "/verif/check", "serves_properties": claimed,
        "kind_free_text": "contract obligations (assume pre / call the real fn / assert post; kani::requires/ensures where expressible; callee contracts as stubs) on the real functions of /repo, discharged by Kani 0.68 / CBMC 6.11; Verus lemmas lift per-step and bounded-size obligations to unbounded statements",
    }],
    "checks": [],
    "notes": "see DESIGN.md; known findings and fixed defects in known_findings.json",
    "not_applicable": [],
}
for pid in claimed:
    P = plan.PLAN[pid]
    m["checks"].append({
        "property_id": pid,
        "quick_cmd": "./check %s --tier quick" % pid,
        "thorough_cmd": "./check %s --tier thorough" % pid,
        "evidence_file": "/verif/evidence/%s.json" % pid,
        "replay_cmd_template": "./check --replay {path}",
        "engine": "kani-contracts",
        "level_claimed": {"category": P["level"], "text": P.get("level_text", P["title"]), "design_ref": "DESIGN.md section 5 %s" % pid},
        "level_note": P.get("level_note", "trusts rustc/Kani/CBMC, Verus/Z3, the shims and harness-side spec functions; every assumption is listed in the evidence file"),
        "technique": P.get("technique", "contract-based deductive verification: Kani function-level contract obligations on the real code + Verus lemmas"),
    })
for p in props:
    if p["id"] not in claimed:
        m["not_applicable"].append({"property_id": p["id"], "reason": plan.NOT_APPLICABLE.get(p["id"], "check under construction (framework build-out in progress); see DESIGN.md for the planned contract")})
json.dump(m, open(plan.VERIF / "MANIFEST.json", "w"), indent=1)
print("claimed:", " ".join(claimed))
