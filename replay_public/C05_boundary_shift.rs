use prometheus::*;
use prometheus::core::Collector;
fn main() {
    let v = IntCounterVec::new(Opts::new("c", "h"), &["a", "b"]).unwrap();
    v.with_label_values(&["ab", "c"]).inc();
    let other = v.with_label_values(&["a", "bc"]).get();
    println!("value seen through the other tuple: {}", other);
    let n = v.collect()[0].get_metric().len();
    println!("children: {}", n);
    assert!(other == 0 && n == 2, "C05 violated: (\"ab\",\"c\") and (\"a\",\"bc\") share one child");
}
