use prometheus::{Counter, Registry};
use std::collections::HashMap;

fn valid_metric_name(s: &str) -> bool {
    let mut cs = s.chars();
    match cs.next() {
        Some(c) if c.is_ascii_alphabetic() || c == '_' || c == ':' => cs.all(|c| c.is_ascii_alphanumeric() || c == '_' || c == ':'),
        _ => false,
    }
}
fn valid_label_name(s: &str) -> bool {
    let mut cs = s.chars();
    match cs.next() {
        Some(c) if c.is_ascii_alphabetic() || c == '_' => cs.all(|c| c.is_ascii_alphanumeric() || c == '_'),
        _ => false,
    }
}

fn main() {
    let mut labels = HashMap::new();
    labels.insert("bad-name".to_string(), "v".to_string());
    let r = match Registry::new_custom(Some("9 x".to_string()), Some(labels)) {
        Ok(r) => r,
        Err(e) => {
            println!("new_custom refused the invalid prefix / label name: {}", e);
            return;
        }
    };
    let c = Counter::new("requests", "help").unwrap();
    r.register(Box::new(c.clone())).unwrap();
    c.inc();
    let mut bad = false;
    for mf in r.gather() {
        if !valid_metric_name(mf.name()) {
            println!("gather() exposed invalid metric name {:?}", mf.name());
            bad = true;
        }
        for m in mf.get_metric() {
            for l in m.get_label() {
                if !valid_label_name(l.name()) {
                    println!("gather() exposed invalid label name {:?}", l.name());
                    bad = true;
                }
            }
        }
    }
    assert!(!bad, "C09 violated: registry-level prefix / common labels are not validated");
}
