use prometheus::core::Collector;
use prometheus::{CounterVec, Opts};

fn main() {
    // label name "a" is used both as a constant label and as a variable label
    let r = CounterVec::new(Opts::new("m", "help").const_label("a", "x"), &["a"]);
    match r {
        Ok(v) => {
            v.with_label_values(&["y"]).inc();
            let mf = v.collect();
            let names: Vec<String> = mf[0].get_metric()[0].get_label().iter().map(|l| l.name().to_string()).collect();
            println!("accepted; sample label names: {:?}", names);
            panic!("C09 violated: label name 'a' occurs twice in an exposed sample");
        }
        Err(e) => println!("rejected: {}", e),
    }
}
