use prometheus::proto::{Metric, MetricFamily, MetricType};
use prometheus::{Encoder, TextEncoder};

fn main() {
    let mut mf = MetricFamily::default();
    mf.set_name("n".to_owned());
    mf.set_field_type(MetricType::UNTYPED);
    mf.set_metric(vec![Metric::default()]);
    let mut out = Vec::new();
    let r = std::panic::catch_unwind(move || TextEncoder::new().encode(&[mf], &mut out).is_err());
    match r {
        Ok(is_err) => println!("encode returned, is_err = {}", is_err),
        Err(_) => {
            println!("C17 violated: TextEncoder::encode panicked on an UNTYPED family");
            std::process::exit(1);
        }
    }
}
