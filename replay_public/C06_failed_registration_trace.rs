use prometheus::core::{Collector, Desc};
use prometheus::{proto, Counter, Opts, Registry};
use std::collections::HashMap;

struct Multi(Vec<Desc>);
impl Collector for Multi {
    fn desc(&self) -> Vec<&Desc> { self.0.iter().collect() }
    fn collect(&self) -> Vec<proto::MetricFamily> { vec![] }
}

fn main() {
    let r = Registry::new();
    let d = Desc::new("a".into(), "help one".into(), vec![], HashMap::new()).unwrap();
    // a collector that repeats a descriptor is refused ...
    let res = r.register(Box::new(Multi(vec![d.clone(), d.clone()])));
    println!("multi-desc collector refused: {}", res.is_err());
    assert!(res.is_err());
    // ... so the registry must behave exactly as if that call had never been made:
    // a metric named "a" with ANOTHER help text must be admissible into the (still empty) registry
    let c = Counter::with_opts(Opts::new("a", "another help")).unwrap();
    let res2 = r.register(Box::new(c));
    println!("registration after the failed call: {:?}", res2);
    assert!(res2.is_ok(), "C06 violated: the failed registration left a dimension signature for \"a\" behind");
}
