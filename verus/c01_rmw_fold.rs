// C01 / C11 composition lemma for ONE atomic cell (unbounded in the number of events/threads).
//
// What Kani discharges on the real code (kani/atomic_c01.rs, counter_c01.rs, gauge_c11.rs):
//   every completed inc/inc_by/add/sub/flush contributes EXACTLY ONE write event to the cell,
//   and that event maps the content it replaces, c, to c (+) d   -- for the integer flavours by
//   being a single fetch_add/fetch_sub, for the float flavour by being the single successful
//   compare-exchange whose expected value is the value it replaces.
// What is assumed (A2, the C++/Rust memory model): the write events of one atomic cell are
//   totally ordered (modification order) and an RMW replaces the immediately preceding value.
// This file proves: content after the whole order = init + sum of all deltas (so no increment is
//   lost or applied twice, whatever the interleaving), every read returns a prefix sum, and with
//   non-negative deltas reads along the order never decrease.
use vstd::prelude::*;

verus! {

pub open spec fn sum(ds: Seq<int>) -> int
    decreases ds.len(),
{
    if ds.len() == 0 { 0 } else { sum(ds.drop_last()) + ds.last() }
}

/// `contents` is the modification order of the cell: contents[0] = init, event i replaces
/// contents[i] by contents[i] + ds[i]   (the per-event guarantee proved by Kani).
pub open spec fn is_modification_order(init: int, ds: Seq<int>, contents: Seq<int>) -> bool {
    &&& contents.len() == ds.len() + 1
    &&& contents[0] == init
    &&& forall|i: int| 0 <= i < ds.len() ==> #[trigger] contents[i + 1] == contents[i] + ds[i]
}

pub proof fn prefix_sum(init: int, ds: Seq<int>, contents: Seq<int>, k: int)
    requires is_modification_order(init, ds, contents), 0 <= k <= ds.len(),
    ensures contents[k] == init + sum(ds.subrange(0, k)),
    decreases k,
{
    if k == 0 {
        assert(ds.subrange(0, 0).len() == 0);
    } else {
        prefix_sum(init, ds, contents, k - 1);
        let s = ds.subrange(0, k);
        assert(s.drop_last() =~= ds.subrange(0, k - 1));
        assert(s.last() == ds[k - 1]);
        assert(contents[(k - 1) + 1] == contents[k - 1] + ds[k - 1]);
    }
}

/// after all threads finish the value equals init + the sum of all increments
pub proof fn final_is_sum(init: int, ds: Seq<int>, contents: Seq<int>)
    requires is_modification_order(init, ds, contents),
    ensures contents[ds.len() as int] == init + sum(ds),
{
    prefix_sum(init, ds, contents, ds.len() as int);
    assert(ds.subrange(0, ds.len() as int) =~= ds);
}

/// non-negative deltas: contents never decrease along the modification order, so two reads
/// that follow one another in happens-before (hence in modification order) never decrease
pub proof fn monotone(init: int, ds: Seq<int>, contents: Seq<int>, i: int, j: int)
    requires
        is_modification_order(init, ds, contents),
        forall|k: int| 0 <= k < ds.len() ==> ds[k] >= 0,
        0 <= i <= j <= ds.len(),
    ensures contents[i] <= contents[j],
    decreases j - i,
{
    if i < j {
        monotone(init, ds, contents, i, j - 1);
        assert(contents[(j - 1) + 1] == contents[j - 1] + ds[j - 1]);
    }
}

/// machine integers: if each event is a wrapping add, the final content is the mathematical
/// sum reduced modulo 2^64 (IntCounter / IntGauge)
pub proof fn wrapping_final(init: int, ds: Seq<int>, contents: Seq<int>, k: int)
    requires
        contents.len() == ds.len() + 1,
        contents[0] == init % 0x1_0000_0000_0000_0000,
        forall|i: int| 0 <= i < ds.len() ==> #[trigger] contents[i + 1] == (contents[i] + ds[i]) % 0x1_0000_0000_0000_0000,
        0 <= k <= ds.len(),
    ensures contents[k] == (init + sum(ds.subrange(0, k))) % 0x1_0000_0000_0000_0000,
    decreases k,
{
    if k == 0 {
        assert(ds.subrange(0, 0).len() == 0);
    } else {
        wrapping_final(init, ds, contents, k - 1);
        let s = ds.subrange(0, k);
        assert(s.drop_last() =~= ds.subrange(0, k - 1));
        assert(s.last() == ds[k - 1]);
        assert(contents[(k - 1) + 1] == (contents[k - 1] + ds[k - 1]) % 0x1_0000_0000_0000_0000);
        let a = init + sum(ds.subrange(0, k - 1));
        let d = ds[k - 1];
        assert(((a % 0x1_0000_0000_0000_0000) + d) % 0x1_0000_0000_0000_0000 == (a + d) % 0x1_0000_0000_0000_0000) by {
            vstd::arithmetic::div_mod::lemma_add_mod_noop(a, d, 0x1_0000_0000_0000_0000);
            vstd::arithmetic::div_mod::lemma_add_mod_noop(a % 0x1_0000_0000_0000_0000, d, 0x1_0000_0000_0000_0000);
            vstd::arithmetic::div_mod::lemma_mod_twice(a, 0x1_0000_0000_0000_0000);
        }
    }
}

/// a local flush delivers a batch as ONE event whose delta is the batch sum, so "shared =
/// direct updates + flushed batches" is the same fold with the batch as one summand
pub proof fn sum_append(a: Seq<int>, d: int)
    ensures sum(a.push(d)) == sum(a) + d,
{
    assert(a.push(d).drop_last() =~= a);
}

} // verus!

fn main() {}
