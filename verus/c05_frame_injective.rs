// C05 / C15 framing lemma (unbounded in the number of pieces and in their lengths).
//
// Kani discharges on the real code (kani/vec_c05.rs, kani/desc_c15.rs, hasher replaced by a byte
// recorder): the byte stream fed to the hasher is  frame(pieces)  = each piece followed by the
// separator byte 0xFF, pieces taken in a canonical order (declared label order / sorted names).
// This file proves that `frame` is INJECTIVE on lists of 0xFF-free pieces (every UTF-8 string is
// 0xFF-free), so equal streams <=> equal tuples; with A1 (no 64-bit FNV collision) equal keys
// <=> equal tuples.  It also exhibits why the unframed concatenation is NOT injective.
use vstd::prelude::*;

verus! {

pub open spec fn sep() -> u8 { 0xFFu8 }

pub open spec fn no_sep(p: Seq<u8>) -> bool {
    forall|i: int| 0 <= i < p.len() ==> p[i] != sep()
}

pub open spec fn all_no_sep(ps: Seq<Seq<u8>>) -> bool {
    forall|k: int| 0 <= k < ps.len() ==> no_sep(#[trigger] ps[k])
}

pub open spec fn frame(ps: Seq<Seq<u8>>) -> Seq<u8>
    decreases ps.len(),
{
    if ps.len() == 0 {
        Seq::empty()
    } else {
        ps[0] + seq![sep()] + frame(ps.skip(1))
    }
}

/// the first separator of frame(ps) sits right after the first piece
proof fn first_sep(ps: Seq<Seq<u8>>)
    requires ps.len() > 0, all_no_sep(ps),
    ensures
        frame(ps).len() > ps[0].len(),
        frame(ps)[ps[0].len() as int] == sep(),
        forall|i: int| 0 <= i < ps[0].len() ==> frame(ps)[i] == ps[0][i] && frame(ps)[i] != sep(),
{
    let f = ps[0] + seq![sep()] + frame(ps.skip(1));
    assert(frame(ps) == f);
    assert(no_sep(ps[0]));
    assert forall|i: int| 0 <= i < ps[0].len() implies frame(ps)[i] == ps[0][i] && frame(ps)[i] != sep() by {
        assert(f[i] == ps[0][i]);
    }
}

pub proof fn frame_injective(a: Seq<Seq<u8>>, b: Seq<Seq<u8>>)
    requires all_no_sep(a), all_no_sep(b), frame(a) == frame(b),
    ensures a =~= b,
    decreases a.len(),
{
    if a.len() == 0 {
        if b.len() > 0 {
            first_sep(b);
            assert(frame(a).len() == 0);
        }
    } else if b.len() == 0 {
        first_sep(a);
        assert(frame(b).len() == 0);
    } else {
        first_sep(a);
        first_sep(b);
        let la = a[0].len() as int;
        let lb = b[0].len() as int;
        // equal position of the first separator
        if la < lb {
            assert(frame(a)[la] == sep());
            assert(frame(b)[la] != sep());
        } else if lb < la {
            assert(frame(b)[lb] == sep());
            assert(frame(a)[lb] != sep());
        }
        assert(la == lb);
        assert(a[0] =~= b[0]) by {
            assert forall|i: int| 0 <= i < la implies a[0][i] == b[0][i] by {
                assert(frame(a)[i] == a[0][i]);
                assert(frame(b)[i] == b[0][i]);
            }
        }
        let ra = frame(a.skip(1));
        let rb = frame(b.skip(1));
        let fa = a[0] + seq![sep()] + ra;
        let fb = b[0] + seq![sep()] + rb;
        assert(frame(a) == fa && frame(b) == fb);
        assert(ra =~= fa.subrange(la + 1, fa.len() as int));
        assert(rb =~= fb.subrange(lb + 1, fb.len() as int));
        assert(ra == rb);
        assert(all_no_sep(a.skip(1))) by {
            assert forall|k: int| 0 <= k < a.skip(1).len() implies no_sep(#[trigger] a.skip(1)[k]) by {
                assert(a.skip(1)[k] == a[k + 1]);
            }
        }
        assert(all_no_sep(b.skip(1))) by {
            assert forall|k: int| 0 <= k < b.skip(1).len() implies no_sep(#[trigger] b.skip(1)[k]) by {
                assert(b.skip(1)[k] == b[k + 1]);
            }
        }
        frame_injective(a.skip(1), b.skip(1));
        assert(a =~= b) by {
            assert(a.len() == b.len());
            assert forall|k: int| 0 <= k < a.len() implies a[k] == b[k] by {
                if k > 0 {
                    assert(a.skip(1)[k - 1] == a[k]);
                    assert(b.skip(1)[k - 1] == b[k]);
                }
            }
        }
    }
}

pub open spec fn concat(ps: Seq<Seq<u8>>) -> Seq<u8>
    decreases ps.len(),
{
    if ps.len() == 0 { Seq::empty() } else { ps[0] + concat(ps.skip(1)) }
}

/// witness: without the separator, ("ab","c") and ("a","bc") feed identical bytes
pub proof fn concat_not_injective()
    ensures
        concat(seq![seq![97u8, 98u8], seq![99u8]]) =~= concat(seq![seq![97u8], seq![98u8, 99u8]]),
        seq![seq![97u8, 98u8], seq![99u8]] != seq![seq![97u8], seq![98u8, 99u8]],
{
    let x = seq![seq![97u8, 98u8], seq![99u8]];
    let y = seq![seq![97u8], seq![98u8, 99u8]];
    reveal_with_fuel(concat, 4);
    assert(x.skip(1) =~= seq![seq![99u8]]);
    assert(y.skip(1) =~= seq![seq![98u8, 99u8]]);
    assert(x.skip(1).skip(1) =~= Seq::<Seq<u8>>::empty());
    assert(y.skip(1).skip(1) =~= Seq::<Seq<u8>>::empty());
    assert(x[0].len() == 2 && y[0].len() == 1);
}

} // verus!

fn main() {}
