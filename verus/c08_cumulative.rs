// C08 lifting lemma (unbounded in the number of buckets and of observations).
//
// Code-level obligations discharged by Kani on the real functions (kani/hist_c08.rs):
//   (K1) observe / LocalHistogramCore::observe increment exactly the first-fit bucket
//        `ff(v)` = least i with `v <= bound[i]` (none if there is none);
//   (K2) proto reports cumulative[i] = sum_{j<=i} bucket[j];
//   (K3) for every f64 v, a, b:  v <= a  &&  a < b  ==>  v <= b   (harness c08_le_chain).
// This file proves, from exactly those three facts, the property's statement
//   "each bound reports the number of observations not greater than it".
// `le` is uninterpreted: values are opaque tokens (f64 bit patterns, NaN included), the only
// thing assumed about them is (K3), stated as the precondition `chain`.
use vstd::prelude::*;

verus! {

pub uninterp spec fn le(v: int, b: int) -> bool;

/// (K3) specialised to an accepted (strictly increasing, NaN-free) bound list
pub open spec fn chain(b: Seq<int>) -> bool {
    forall|v: int, i: int, j: int| 0 <= i < j < b.len() && le(v, b[i]) ==> le(v, b[j])
}

/// first-fit index among the first n bounds; n if none fits  (K1's bucket choice)
pub open spec fn ff(b: Seq<int>, v: int, n: nat) -> nat
    decreases n,
{
    if n == 0 {
        0
    } else if ff(b, v, (n - 1) as nat) < n - 1 {
        ff(b, v, (n - 1) as nat)
    } else if le(v, b[n - 1]) {
        (n - 1) as nat
    } else {
        n
    }
}

proof fn ff_bounds(b: Seq<int>, v: int, n: nat)
    requires n <= b.len(),
    ensures
        ff(b, v, n) <= n,
        ff(b, v, n) < n ==> le(v, b[ff(b, v, n) as int]),
        forall|k: int| 0 <= k < ff(b, v, n) ==> !le(v, b[k]),
    decreases n,
{
    if n > 0 {
        ff_bounds(b, v, (n - 1) as nat);
    }
}

/// v <= bound[i]  <=>  first-fit index <= i
proof fn ff_iff_le(b: Seq<int>, v: int, i: int)
    requires chain(b), 0 <= i < b.len(),
    ensures le(v, b[i]) <==> ff(b, v, b.len()) <= i,
{
    ff_bounds(b, v, b.len());
    let f = ff(b, v, b.len());
    if f <= i {
        if f < i {
            assert(le(v, b[f as int]));
            assert(le(v, b[i]));
        }
    } else {
        assert(!le(v, b[i]));
    }
}

/// number of observations whose first-fit bucket is j  (what bucket j holds by K1)
pub open spec fn bucket_count(b: Seq<int>, obs: Seq<int>, j: int) -> nat
    decreases obs.len(),
{
    if obs.len() == 0 {
        0
    } else {
        bucket_count(b, obs.drop_last(), j) + if ff(b, obs.last(), b.len()) == j { 1nat } else { 0nat }
    }
}

/// what proto reports for bound i by K2
pub open spec fn cumulative(b: Seq<int>, obs: Seq<int>, i: int) -> nat
    decreases i + 1,
{
    if i < 0 {
        0
    } else {
        cumulative(b, obs, i - 1) + bucket_count(b, obs, i)
    }
}

/// the property's right-hand side: #{ o in obs : o <= bound[i] }
pub open spec fn le_count(b: Seq<int>, obs: Seq<int>, i: int) -> nat
    decreases obs.len(),
{
    if obs.len() == 0 {
        0
    } else {
        le_count(b, obs.drop_last(), i) + if le(obs.last(), b[i]) { 1nat } else { 0nat }
    }
}

proof fn cumulative_step(b: Seq<int>, obs: Seq<int>, i: int)
    requires obs.len() > 0, i >= -1,
    ensures cumulative(b, obs, i) == cumulative(b, obs.drop_last(), i)
        + if 0 <= ff(b, obs.last(), b.len()) <= i { 1nat } else { 0nat },
    decreases i + 1,
{
    if i >= 0 {
        cumulative_step(b, obs, i - 1);
    }
}

proof fn cumulative_empty(b: Seq<int>, obs: Seq<int>, i: int)
    requires obs.len() == 0, i >= -1,
    ensures cumulative(b, obs, i) == 0,
    decreases i + 1,
{
    if i >= 0 {
        cumulative_empty(b, obs, i - 1);
    }
}

/// MAIN: for every accepted bound list and every finite observation sequence, the cumulative
/// count reported for bound i equals the number of observations not greater than it.
pub proof fn cumulative_is_le_count(b: Seq<int>, obs: Seq<int>, i: int)
    requires chain(b), 0 <= i < b.len(),
    ensures cumulative(b, obs, i) == le_count(b, obs, i),
    decreases obs.len(),
{
    if obs.len() == 0 {
        cumulative_empty(b, obs, i);
    } else {
        cumulative_is_le_count(b, obs.drop_last(), i);
        cumulative_step(b, obs, i);
        ff_iff_le(b, obs.last(), i);
    }
}

/// values above every bound (and NaN, for which le is never true) are in no finite bucket:
/// they are counted only by the sample count (the implicit +Inf bucket).
pub proof fn overflow_in_no_bucket(b: Seq<int>, v: int, j: int)
    requires forall|k: int| 0 <= k < b.len() ==> !le(v, b[k]), 0 <= j < b.len(),
    ensures ff(b, v, b.len()) == b.len(),
{
    ff_bounds(b, v, b.len());
}

} // verus!

fn main() {}
