// C04 lemmas over the escaping spec (unbounded in the length and content of the strings).
//
// Kani discharges on the real code (kani/text_c04.rs, bounded/enumerated): escape_string(v, q) equals
// the character-wise rule  esc  below.  This file proves what the property needs from that rule:
//   (L1) unesc(esc(s, q)) == s                      -- a parser reads the value back exactly;
//   (L2) esc(s, q) contains no raw line feed        -- no help text / label value can add a line;
//   (L3) with q, every quote in esc(s, true) is preceded by a backslash that escapes it, i.e. the
//        unescaping scanner never sees a bare quote -- a value cannot close its quotes.
// Characters are abstract code points (int); 92 = backslash, 10 = LF, 34 = quote, 110 = 'n'.
use vstd::prelude::*;

verus! {

pub open spec fn esc_char(c: int, q: bool) -> Seq<int> {
    if c == 92 { seq![92, 92] }
    else if c == 10 { seq![92, 110] }
    else if c == 34 && q { seq![92, 34] }
    else { seq![c] }
}

pub open spec fn esc(s: Seq<int>, q: bool) -> Seq<int>
    decreases s.len(),
{
    if s.len() == 0 { Seq::empty() } else { esc_char(s[0], q) + esc(s.skip(1), q) }
}

/// the reader: backslash introduces a two-character escape; anything else is literal.
/// Returns None if it meets a raw LF (line ends) or, in quoted mode, a bare quote (value ends).
pub open spec fn unesc(t: Seq<int>, q: bool) -> Option<Seq<int>>
    decreases t.len(),
{
    if t.len() == 0 {
        Some(Seq::empty())
    } else if t[0] == 92 {
        if t.len() < 2 {
            None
        } else {
            let c = if t[1] == 110 { 10 } else { t[1] };
            match unesc(t.skip(2), q) {
                Some(r) => Some(seq![c] + r),
                None => None,
            }
        }
    } else if t[0] == 10 || (q && t[0] == 34) {
        None
    } else {
        match unesc(t.skip(1), q) {
            Some(r) => Some(seq![t[0]] + r),
            None => None,
        }
    }
}

/// inputs the exposition can carry: in unquoted mode (help text) a literal 'n' after an escaped
/// backslash is unambiguous because the backslash itself is doubled.
pub proof fn roundtrip(s: Seq<int>, q: bool)
    ensures unesc(esc(s, q), q) == Some(s),
    decreases s.len(),
{
    if s.len() == 0 {
    } else {
        roundtrip(s.skip(1), q);
        let c = s[0];
        let rest = esc(s.skip(1), q);
        let t = esc_char(c, q) + rest;
        assert(esc(s, q) == t);
        if c == 92 {
            assert(t[0] == 92 && t[1] == 92);
            assert(t.skip(2) =~= rest);
            assert(seq![92int] + s.skip(1) =~= s);
        } else if c == 10 {
            assert(t[0] == 92 && t[1] == 110);
            assert(t.skip(2) =~= rest);
            assert(seq![10int] + s.skip(1) =~= s);
        } else if c == 34 && q {
            assert(t[0] == 92 && t[1] == 34);
            assert(t.skip(2) =~= rest);
            assert(seq![34int] + s.skip(1) =~= s);
        } else {
            assert(t[0] == c);
            assert(t.skip(1) =~= rest);
            assert(seq![c] + s.skip(1) =~= s);
        }
    }
}

/// (L2) the escaped text never contains a raw line feed
pub proof fn no_raw_linefeed(s: Seq<int>, q: bool)
    ensures forall|i: int| 0 <= i < esc(s, q).len() ==> esc(s, q)[i] != 10,
    decreases s.len(),
{
    if s.len() > 0 {
        no_raw_linefeed(s.skip(1), q);
        let h = esc_char(s[0], q);
        let rest = esc(s.skip(1), q);
        assert(esc(s, q) == h + rest);
        assert forall|i: int| 0 <= i < (h + rest).len() implies (h + rest)[i] != 10 by {
            if i < h.len() {
            } else {
                assert((h + rest)[i] == rest[i - h.len()]);
            }
        }
    }
}

/// (L3) follows from roundtrip: the reader (which stops at a bare quote in quoted mode) consumes
/// the WHOLE escaped value, so no quote inside it can terminate the value early.
pub proof fn value_cannot_close_its_quotes(s: Seq<int>)
    ensures unesc(esc(s, true), true).is_some(),
{
    roundtrip(s, true);
}

} // verus!

fn main() {}
