// C03 lifting lemma: per-step obligations  =>  every finite sequential history.
//
// Kani discharges on the real code (kani/hist_c03.rs), each from an ARBITRARY concrete state
// satisfying the representation invariant I(core, A):
//   observe(v)      : I(core', A + [v])
//   flush(batch)    : I(core', A + batch)           (entire batch; empty batch: unchanged)
//   proto()         : returns A, and I(core', A)    (same A, shards swapped)
//   get_sample_*()  : return A.count / A.sum, state unchanged
//   base            : I(new core, empty)
// Here the abstract state is the sequence of observations that have been handed over; the lemma
// states what follows for histories of any length: nothing is lost or duplicated, snapshots taken
// one after another describe growing sets, a flushed batch is in a snapshot entirely or not at all.
use vstd::prelude::*;

verus! {

pub enum Op {
    Observe(int),
    Flush(Seq<int>),
    Collect,
    Get,
}

/// abstract transition (what the step obligations say each operation does to A)
pub open spec fn step(a: Seq<int>, op: Op) -> Seq<int> {
    match op {
        Op::Observe(v) => a.push(v),
        Op::Flush(b) => a + b,
        Op::Collect => a,
        Op::Get => a,
    }
}

pub open spec fn run(h: Seq<Op>) -> Seq<int>
    decreases h.len(),
{
    if h.len() == 0 { Seq::empty() } else { step(run(h.drop_last()), h.last()) }
}

/// all values handed over by a history, in order
pub open spec fn handed_over(h: Seq<Op>) -> Seq<int>
    decreases h.len(),
{
    if h.len() == 0 {
        Seq::empty()
    } else {
        handed_over(h.drop_last()) + match h.last() {
            Op::Observe(v) => seq![v],
            Op::Flush(b) => b,
            _ => Seq::empty(),
        }
    }
}

/// conservation: the state after ANY history is exactly everything handed over (no loss, no
/// duplication) -- in particular the snapshot taken after all threads finished.
pub proof fn conservation(h: Seq<Op>)
    ensures run(h) =~= handed_over(h),
    decreases h.len(),
{
    if h.len() > 0 {
        conservation(h.drop_last());
        match h.last() {
            Op::Observe(v) => { assert(run(h.drop_last()).push(v) =~= run(h.drop_last()) + seq![v]); }
            Op::Flush(b) => {}
            _ => { assert(run(h.drop_last()) + Seq::<int>::empty() =~= run(h.drop_last())); }
        }
    }
}

/// snapshots grow: the state after a prefix of the history is a prefix of the state after the
/// whole history (so a later collect describes a superset of an earlier one, counts never drop)
pub proof fn snapshots_grow(h: Seq<Op>, k: int)
    requires 0 <= k <= h.len(),
    ensures run(h.subrange(0, k)).is_prefix_of(run(h)),
    decreases h.len() - k,
{
    if k == h.len() {
        assert(h.subrange(0, k) =~= h);
    } else {
        snapshots_grow(h, k + 1);
        let p = h.subrange(0, k + 1);
        assert(p.drop_last() =~= h.subrange(0, k));
        assert(p.last() == h[k]);
        let a = run(h.subrange(0, k));
        assert(a.is_prefix_of(step(a, h[k]))) by {
            match h[k] {
                Op::Observe(v) => {}
                Op::Flush(b) => {}
                _ => {}
            }
        }
        // prefix transitivity
        let b = run(p);
        let c = run(h);
        assert(a.is_prefix_of(b) && b.is_prefix_of(c));
        assert(a.len() <= c.len());
        assert(forall|i: int| 0 <= i < a.len() ==> a[i] == b[i] && b[i] == c[i]);
        assert(a =~= c.subrange(0, a.len() as int));
    }
}

/// a flushed batch is atomic in the abstract state: after the flush step the state contains the
/// whole batch; before it, none of it (the step adds `b` in ONE transition)
pub proof fn batch_all_or_nothing(a: Seq<int>, b: Seq<int>)
    ensures step(a, Op::Flush(b)).len() == a.len() + b.len(), step(a, Op::Flush(b)).subrange(a.len() as int, (a.len() + b.len()) as int) =~= b,
{
}

} // verus!

fn main() {}
